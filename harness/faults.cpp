// E1-style harness for C10 (resource failures are reported to every live participant).
// One scenario + many fault schedules per process: every schedule ("run") is executed in a forked child (one Engine per child), so
// that the process/sanitizer start-up cost is paid once per scenario. stdin:
//   net <default|CM02|...>            network model (default = leave SimGrid's default)
//   host <speed> <disk 0|1>           hosts H0..   (a further host "ctl", never failed, carries the injector actor)
//   link <bw> <lat>                   links L0..   (SHARED)
//   route <a> <b> <l,l,...>           symmetric route between hosts a and b
//   mutex <n>
//   actor <host>                      actor a<i>, then one op per line, then "end"
//   run <id> <path> <nf> {<H|L> <idx> <t_off> <t_on|-1>}*nf      path: N none, A injector actor, T kernel timer, M maestro between
//                                                                run_until() calls, P state profile attached to the resource
// ops:  exec F | rexec H F | aexec H F | sleep D | yield | put M B | get M | aput M B | aget M | dput M B | wait K | test K |
//       waitany K K .. | read H S | write H S | aread H S | awrite H S | lock X | unlock X | join A
//       (K = index of the op of the same actor that created the handle; M = mailbox name)
// Boundary log of one run (clock printed %.17g, a = actor index, k = op index):
//   BEGIN id path                       DONE id rc=<n>|sig=<n>|timeout [pid=<child>]
//   Q clk a k kind args..               just before the API call
//   R clk a k kind ok [k=v ..]          the call returned        R clk a k kind exc <Type>   the call threw <Type>
//   K clk a k reason                    op skipped by the harness (handle consumed / never created)
//   B clk a                             the body of actor a starts (its on_exit callback is registered)
//   X clk a failed                      on_exit callback of actor a      Z clk a    body returned      T clk a   Actor::on_termination
//   F clk a k                           Comm::on_completion signal for the s4u::Comm created by op k of actor a (kernel side finish)
//   IQ clk path H|L idx on|off          the injector is about to change the state      IR clk path H|L idx is_on
//   S clk H|L idx is_on                 Host/Link::on_onoff signal
//   DL clk                              Engine::on_deadlock       END clk      Engine::run() returned
#include <simgrid/Exception.hpp>
#include <simgrid/kernel/ProfileBuilder.hpp>
#include <simgrid/kernel/Timer.hpp>
#include <simgrid/s4u.hpp>

#include <algorithm>
#include <cstdio>
#include <cstring>
#include <iostream>
#include <map>
#include <sstream>
#include <string>
#include <sys/time.h>
#include <sys/wait.h>
#include <unistd.h>
#include <vector>

namespace sg4 = simgrid::s4u;

struct Op {
  std::string kind;
  std::vector<std::string> a;
};
struct ActorSpec {
  int host;
  std::vector<Op> ops;
};
struct HostSpec {
  double speed;
  int disk;
};
struct LinkSpec {
  double bw, lat;
};
struct RouteSpec {
  int a, b;
  std::vector<int> links;
};
struct Fault {
  char kind; // H or L
  int idx;
  double t_off, t_on;
};
struct Run {
  std::string id;
  char path;
  std::vector<Fault> faults;
};
struct Scenario {
  std::string net = "default";
  std::vector<HostSpec> hosts;
  std::vector<LinkSpec> links;
  std::vector<RouteSpec> routes;
  int nmutex = 0;
  std::vector<ActorSpec> actors;
  std::vector<Run> runs;
};
static Scenario sc;

static std::vector<sg4::Host*> hosts;
static std::vector<sg4::Link*> links;
static std::vector<sg4::MutexPtr> mutexes;
static std::vector<sg4::ActorPtr> actors;
static std::map<std::string, sg4::Mailbox*> mboxes; // resolved from main(): Mailbox::by_name() is a simcall when issued by an actor
static std::map<const void*, std::pair<int, int>> act2op; // s4u activity -> (actor, op) that created it

static double now()
{
  return sg4::Engine::get_clock();
}

struct Handle {
  sg4::ActivityPtr act;
  long* rbuf    = nullptr; // where an asynchronous get puts the payload
  bool consumed = false;
  bool is_recv  = false;
  Handle()      = default;
  Handle(const Handle&) = delete;
  ~Handle()
  {
    if (act)
      act2op.erase(act.get());
  }
};

static int actor_index(const sg4::Actor* a)
{
  if (a == nullptr)
    return -1;
  const std::string& n = a->get_name();
  if (n.size() >= 2 && n[0] == 'a')
    return atoi(n.c_str() + 1);
  return -2;
}

// Runs f (which returns the text to put after "ok"); logs the return or the exception family.
template <class F> static bool guarded(int ai, size_t k, const char* kind, F f)
{
  const char* exc = nullptr;
  std::string res;
  try {
    res = f();
  } catch (const simgrid::NetworkFailureException&) {
    exc = "NetworkFailure";
  } catch (const simgrid::HostFailureException&) {
    exc = "HostFailure";
  } catch (const simgrid::StorageFailureException&) {
    exc = "StorageFailure";
  } catch (const simgrid::TimeoutException&) {
    exc = "Timeout";
  } catch (const simgrid::CancelException&) {
    exc = "Cancel";
  } catch (const simgrid::Exception&) {
    exc = "OtherSimgrid";
  } catch (const std::exception& e) {
    printf("R %.17g %d %zu %s exc std %.60s\n", now(), ai, k, kind, e.what());
    return false;
  }
  if (exc) {
    printf("R %.17g %d %zu %s exc %s\n", now(), ai, k, kind, exc);
    return false;
  }
  printf("R %.17g %d %zu %s ok%s%s\n", now(), ai, k, kind, res.empty() ? "" : " ", res.c_str());
  return true;
}

static void body(int ai)
{
  sg4::this_actor::on_exit([ai](bool failed) { printf("X %.17g %d %d\n", now(), ai, failed ? 1 : 0); });
  printf("B %.17g %d\n", now(), ai);
  std::map<int, Handle> H;
  const auto& ops = sc.actors[ai].ops;
  for (size_t k = 0; k < ops.size(); k++) {
    const Op& op         = ops[k];
    const std::string& n = op.kind;
    auto num             = [&op](int i) { return strtod(op.a[i].c_str(), nullptr); };
    auto inum            = [&op](int i) { return atoi(op.a[i].c_str()); };
    std::string args;
    for (auto const& s : op.a)
      args += " " + s;
    long uid = ai * 1000L + (long)k;

    if (n == "wait" || n == "test") {
      auto it = H.find(inum(0));
      if (it == H.end() || it->second.consumed || not it->second.act) {
        printf("K %.17g %d %zu %s\n", now(), ai, k, it == H.end() ? "nohandle" : "consumed");
        continue;
      }
      Handle& h = it->second;
      printf("Q %.17g %d %zu %s%s\n", now(), ai, k, n.c_str(), args.c_str());
      if (n == "wait") {
        guarded(ai, k, "wait", [&h]() {
          h.consumed = true; // whatever happens the handle is not used again
          h.act->wait();
          std::string r = std::string("state=") + h.act->get_state_str();
          if (h.is_recv && h.rbuf != nullptr) {
            r += " payload=" + std::to_string(*h.rbuf);
            delete h.rbuf;
            h.rbuf = nullptr;
          } else if (h.is_recv)
            r += " payload=null";
          return r;
        });
      } else {
        bool threw = not guarded(ai, k, "test", [&h]() {
          bool v        = h.act->test();
          std::string r = std::string("val=") + (v ? "1" : "0") + " state=" + h.act->get_state_str();
          if (v) {
            h.consumed = true;
            if (h.is_recv && h.rbuf != nullptr) {
              r += " payload=" + std::to_string(*h.rbuf);
              delete h.rbuf;
              h.rbuf = nullptr;
            } else if (h.is_recv)
              r += " payload=null";
          }
          return r;
        });
        if (threw)
          h.consumed = true;
      }
      continue;
    }
    if (n == "waitany") {
      sg4::ActivitySet set;
      std::vector<int> members;
      for (size_t i = 0; i < op.a.size(); i++) {
        auto it = H.find(inum(i));
        if (it != H.end() && not it->second.consumed && it->second.act) {
          set.push(it->second.act);
          members.push_back(inum(i));
        }
      }
      if (members.empty()) {
        printf("K %.17g %d %zu consumed\n", now(), ai, k);
        continue;
      }
      std::string ms;
      for (int m : members)
        ms += " " + std::to_string(m);
      printf("Q %.17g %d %zu waitany%s\n", now(), ai, k, ms.c_str());
      auto which = [&H, &members](const sg4::ActivityPtr& p) {
        for (int m : members)
          if (H[m].act.get() == p.get())
            return m;
        return -1;
      };
      bool okr = guarded(ai, k, "waitany", [&]() {
        sg4::ActivityPtr done = set.wait_any();
        int m                 = which(done);
        std::string r         = "which=" + std::to_string(m);
        if (m >= 0) {
          Handle& h  = H[m];
          h.consumed = true;
          r += std::string(" state=") + h.act->get_state_str();
          if (h.is_recv && h.rbuf != nullptr) {
            r += " payload=" + std::to_string(*h.rbuf);
            delete h.rbuf;
            h.rbuf = nullptr;
          } else if (h.is_recv)
            r += " payload=null";
        }
        return r;
      });
      if (not okr) {
        std::string r;
        while (auto f = set.get_failed_activity()) {
          int m = which(f);
          if (m >= 0)
            H[m].consumed = true;
          r += " " + std::to_string(m);
        }
        printf("W %.17g %d %zu failed%s\n", now(), ai, k, r.c_str());
      }
      continue;
    }

    printf("Q %.17g %d %zu %s%s\n", now(), ai, k, n.c_str(), args.c_str());
    if (n == "exec") {
      guarded(ai, k, "exec", [&]() { sg4::this_actor::execute(num(0)); return std::string(); });
    } else if (n == "rexec") {
      guarded(ai, k, "rexec", [&]() { sg4::this_actor::exec_init(num(1))->set_host(hosts[inum(0)])->wait(); return std::string(); });
    } else if (n == "aexec") {
      Handle& h = H[(int)k];
      guarded(ai, k, "aexec", [&]() {
        sg4::ExecPtr x = sg4::this_actor::exec_init(num(1));
        x->set_host(hosts[inum(0)]);
        x->start();
        h.act                = x;
        act2op[h.act.get()]  = {ai, (int)k};
        return std::string();
      });
    } else if (n == "sleep") {
      guarded(ai, k, "sleep", [&]() { sg4::this_actor::sleep_for(num(0)); return std::string(); });
    } else if (n == "yield") {
      guarded(ai, k, "yield", [&]() { sg4::this_actor::yield(); return std::string(); });
    } else if (n == "put") {
      guarded(ai, k, "put", [&]() { mboxes.at(op.a[0])->put(new long(uid), (uint64_t)num(1)); return std::string(); });
    } else if (n == "get") {
      guarded(ai, k, "get", [&]() {
        long* p       = mboxes.at(op.a[0])->get<long>();
        std::string r = p ? "payload=" + std::to_string(*p) : std::string("payload=null");
        delete p;
        return r;
      });
    } else if (n == "aput" || n == "aget") {
      Handle& h = H[(int)k];
      guarded(ai, k, n.c_str(), [&]() {
        sg4::CommPtr c;
        if (n == "aput")
          c = mboxes.at(op.a[0])->put_async(new long(uid), (uint64_t)num(1));
        else {
          h.is_recv = true;
          c         = mboxes.at(op.a[0])->get_async<long>(&h.rbuf);
        }
        h.act               = c;
        act2op[h.act.get()] = {ai, (int)k};
        int peer            = actor_index(n == "aput" ? c->get_receiver() : c->get_sender());
        return "peer=" + std::to_string(peer);
      });
    } else if (n == "dput") {
      guarded(ai, k, "dput", [&]() {
        mboxes.at(op.a[0])->put_init(new long(uid), (uint64_t)num(1))->detach();
        return std::string();
      });
    } else if (n == "read" || n == "write") {
      guarded(ai, k, n.c_str(), [&]() {
        auto* d = hosts[inum(0)]->get_disks().front();
        sg_size_t r = n == "read" ? d->read((sg_size_t)num(1)) : d->write((sg_size_t)num(1));
        return "bytes=" + std::to_string(r);
      });
    } else if (n == "aread" || n == "awrite") {
      Handle& h = H[(int)k];
      guarded(ai, k, n.c_str(), [&]() {
        auto* d             = hosts[inum(0)]->get_disks().front();
        sg4::IoPtr io       = n == "aread" ? d->read_async((sg_size_t)num(1)) : d->write_async((sg_size_t)num(1));
        h.act               = io;
        act2op[h.act.get()] = {ai, (int)k};
        return std::string();
      });
    } else if (n == "lock") {
      guarded(ai, k, "lock", [&]() { mutexes[inum(0)]->lock(); return std::string(); });
    } else if (n == "unlock") {
      guarded(ai, k, "unlock", [&]() { mutexes[inum(0)]->unlock(); return std::string(); });
    } else if (n == "join") {
      guarded(ai, k, "join", [&]() { actors[inum(0)]->join(); return std::string(); });
    } else {
      printf("K %.17g %d %zu unknown-op\n", now(), ai, k);
    }
  }
  printf("Z %.17g %d\n", now(), ai);
}

struct Change {
  double date;
  char kind;
  int idx;
  bool on;
};

static void apply_change(const Change& c, char path)
{
  printf("IQ %.17g %c %c %d %s\n", now(), path, c.kind, c.idx, c.on ? "on" : "off");
  bool st;
  if (c.kind == 'H') {
    if (c.on)
      hosts[c.idx]->turn_on();
    else
      hosts[c.idx]->turn_off();
    st = hosts[c.idx]->is_on();
  } else {
    if (c.on)
      links[c.idx]->turn_on();
    else
      links[c.idx]->turn_off();
    st = links[c.idx]->is_on();
  }
  printf("IR %.17g %c %c %d %d\n", now(), path, c.kind, c.idx, st ? 1 : 0);
}

static int run_case(const Run& run, int argc, char** argv)
{
  std::vector<char*> av(argv, argv + argc);
  int ac = argc;
  sg4::Engine e(&ac, av.data());
  if (sc.net != "default")
    sg4::Engine::set_config("network/model:" + sc.net);

  std::vector<Change> changes;
  for (auto const& f : run.faults) {
    changes.push_back({f.t_off, f.kind, f.idx, false});
    if (f.t_on >= 0)
      changes.push_back({f.t_on, f.kind, f.idx, true});
  }
  std::stable_sort(changes.begin(), changes.end(), [](const Change& a, const Change& b) { return a.date < b.date; });

  auto* z = e.get_netzone_root()->add_netzone_full("z");
  for (size_t i = 0; i < sc.hosts.size(); i++) {
    auto* h = z->add_host("H" + std::to_string(i), sc.hosts[i].speed);
    if (sc.hosts[i].disk)
      h->add_disk("d" + std::to_string(i), 1e8, 5e7);
    hosts.push_back(h);
  }
  auto* ctl = z->add_host("ctl", 1e9);
  for (size_t i = 0; i < sc.links.size(); i++)
    links.push_back(z->add_link("L" + std::to_string(i), sc.links[i].bw)->set_latency(sc.links[i].lat));
  for (auto const& r : sc.routes) {
    std::vector<const sg4::Link*> ls;
    for (int l : r.links)
      ls.push_back(links[l]);
    z->add_route(hosts[r.a], hosts[r.b], ls);
  }
  if (run.path == 'P') {
    std::map<std::pair<char, int>, std::string> prof;
    for (auto const& c : changes) {
      char buf[80];
      snprintf(buf, sizeof buf, "%.17g %d\n", c.date, c.on ? 1 : 0);
      prof[{c.kind, c.idx}] += buf;
    }
    int np = 0;
    for (auto const& [key, txt] : prof) {
      auto* p = simgrid::kernel::profile::ProfileBuilder::from_string("sp" + std::to_string(np++), txt, -1);
      if (key.first == 'H')
        hosts[key.second]->set_state_profile(p);
      else
        links[key.second]->set_state_profile(p);
    }
  }
  z->seal();

  sg4::Host::on_onoff_cb([](sg4::Host const& h) {
    if (h.get_name()[0] == 'H')
      printf("S %.17g H %d %d\n", now(), atoi(h.get_cname() + 1), h.is_on() ? 1 : 0);
  });
  sg4::Link::on_onoff_cb([](sg4::Link const& l) {
    if (l.get_name()[0] == 'L')
      printf("S %.17g L %d %d\n", now(), atoi(l.get_cname() + 1), l.is_on() ? 1 : 0);
  });
  sg4::Engine::on_deadlock_cb([]() { printf("DL %.17g\n", now()); });
  sg4::Actor::on_termination_cb([](sg4::Actor const& a) {
    int i = actor_index(&a);
    if (i >= 0)
      printf("T %.17g %d\n", now(), i);
  });
  sg4::Comm::on_completion_cb([](sg4::Comm const& c) {
    auto it = act2op.find(&c);
    if (it != act2op.end())
      printf("F %.17g %d %d\n", now(), it->second.first, it->second.second);
    else
      printf("F %.17g -1 -1\n", now());
  });

  for (int i = 0; i < sc.nmutex; i++)
    mutexes.push_back(sg4::Mutex::create());
  for (auto const& a : sc.actors)
    for (auto const& op : a.ops)
      if (op.kind == "put" || op.kind == "get" || op.kind == "aput" || op.kind == "aget" || op.kind == "dput")
        mboxes[op.a[0]] = sg4::Mailbox::by_name(op.a[0]);
  for (size_t i = 0; i < sc.actors.size(); i++)
    actors.push_back(hosts[sc.actors[i].host]->add_actor("a" + std::to_string(i), [i]() { body((int)i); }));

  char path = run.path;
  if (path == 'A' && not changes.empty()) {
    ctl->add_actor("inj", [changes, path]() {
      for (auto const& c : changes) {
        if (c.date > now())
          sg4::this_actor::sleep_until(c.date);
        apply_change(c, path);
      }
    });
  } else if (path == 'T') {
    for (auto const& c : changes)
      simgrid::kernel::timer::Timer::set(c.date, [c, path]() { apply_change(c, path); });
  }
  if (path == 'M') {
    for (auto const& c : changes) {
      if (c.date > now())
        e.run_until(c.date);
      apply_change(c, path);
    }
  }
  e.run();
  printf("END %.17g\n", now());
  fflush(stdout);
  return 0;
}

static std::vector<std::string> split(const std::string& s, char sep)
{
  std::vector<std::string> out;
  std::string cur;
  std::istringstream is(s);
  while (std::getline(is, cur, sep))
    if (not cur.empty())
      out.push_back(cur);
  return out;
}

int main(int argc, char** argv)
{
  setvbuf(stdout, nullptr, _IOLBF, 0);
  long child_budget = 120; // wall-clock seconds per run: a fired watchdog is reported as such, never judged
  if (const char* b = getenv("FAULTS_CHILD_TIMEOUT"))
    child_budget = atol(b);
  std::string line;
  while (std::getline(std::cin, line)) {
    auto t = split(line, ' ');
    if (t.empty())
      continue;
    if (t[0] == "net")
      sc.net = t[1];
    else if (t[0] == "host")
      sc.hosts.push_back({strtod(t[1].c_str(), nullptr), atoi(t[2].c_str())});
    else if (t[0] == "link")
      sc.links.push_back({strtod(t[1].c_str(), nullptr), strtod(t[2].c_str(), nullptr)});
    else if (t[0] == "route") {
      RouteSpec r{atoi(t[1].c_str()), atoi(t[2].c_str()), {}};
      for (auto const& l : split(t[3], ','))
        r.links.push_back(atoi(l.c_str()));
      sc.routes.push_back(r);
    } else if (t[0] == "mutex")
      sc.nmutex = atoi(t[1].c_str());
    else if (t[0] == "actor") {
      ActorSpec a{atoi(t[1].c_str()), {}};
      while (std::getline(std::cin, line) && line != "end") {
        auto o = split(line, ' ');
        if (o.empty())
          continue;
        Op op{o[0], {}};
        op.a.assign(o.begin() + 1, o.end());
        a.ops.push_back(op);
      }
      sc.actors.push_back(a);
    } else if (t[0] == "run") {
      Run r{t[1], t[2][0], {}};
      int nf = atoi(t[3].c_str());
      for (int i = 0; i < nf; i++)
        r.faults.push_back({t[4 + 4 * i][0], atoi(t[5 + 4 * i].c_str()), strtod(t[6 + 4 * i].c_str(), nullptr),
                            strtod(t[7 + 4 * i].c_str(), nullptr)});
      sc.runs.push_back(r);
    }
  }
  for (auto const& run : sc.runs) {
    printf("BEGIN %s %c\n", run.id.c_str(), run.path);
    struct timeval tv0;
    gettimeofday(&tv0, nullptr);
    fprintf(stderr, "BEGIN %s\n", run.id.c_str()); // stderr is segmented per run too (assertion messages, sanitizer reports)
    fflush(stdout);
    fflush(stderr);
    pid_t pid = fork();
    if (pid == 0) {
      int rc = run_case(run, argc, argv);
      fflush(stdout);
      _exit(rc);
    }
    int status   = 0;
    long waited  = 0; // in units of 0.5 ms
    bool timeout = false;
    while (true) {
      pid_t r = waitpid(pid, &status, WNOHANG);
      if (r == pid)
        break;
      usleep(500);
      if (++waited > child_budget * 2000) {
        kill(pid, SIGKILL);
        waitpid(pid, &status, 0);
        timeout = true;
        break;
      }
    }
    struct timeval tv1;
    gettimeofday(&tv1, nullptr);
    long ms = (tv1.tv_sec - tv0.tv_sec) * 1000 + (tv1.tv_usec - tv0.tv_usec) / 1000;
    if (timeout)
      printf("DONE %s timeout\n", run.id.c_str());
    else if (WIFSIGNALED(status))
      printf("DONE %s sig=%d pid=%d wall_ms=%ld\n", run.id.c_str(), WTERMSIG(status), (int)pid, ms);
    else
      printf("DONE %s rc=%d pid=%d wall_ms=%ld\n", run.id.c_str(), WEXITSTATUS(status), (int)pid, ms);
  }
  return 0;
}
