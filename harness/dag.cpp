// C13 harness: executes generated workflow-construction scripts on the real engine and records, in execution order, every
// driver operation and every start / completion / veto signal (per-activity on_this_* and class-wide) with the simulated clock.
//
// usage: dag [simgrid options]            scenarios are read from stdin, several per process (they run one after the other on the
//                                         same engine; the dates of a scenario are relative to its 'B' record)
//
// Platform (built through the C++ API): NH hosts h0.. with speeds 1,2,4,1,2,4,.. flop/s, one disk per host (read 4096 B/s, write 2048 B/s;
// the disk model progresses by whole bytes per step, so I/O sizes are multiples of 2048),
// one dedicated link per host pair (bandwidth 2^((i+j)%3) B/s, latency {0,0.5,0.25}[(i*j)%3]) : with network/model:CM02 every isolated
// duration is a dyadic rational, so ties between independent branches are exact.
//
// Scenario text:
//   S <name> <mode>         mode: M maestro-driven (ops between Engine::run_until calls, final Engine::run())
//                                 A one actor builds the DAG and waits with ActivitySet::wait_any()
//                                 W one actor, then Activity::wait() on each activity in the order given by 'waitorder'
//                                 T one actor, then polls Activity::test() on every activity each 0.25 s
//                                 P one builder actor + one waiter actor per activity calling ActivityPtr::wait() ('waiters' op, and at E)
//                                 Q same with the concrete class' wait() (CommPtr::wait() ...)
//   <op> ...                see exec_op() below; '@<k> <op>' = executed by helper actor k (actor modes), concurrently with the driver
//   E                       end of the scenario: run it to completion
// Records (one per line, in execution order):
//   B <name> <mode> <clock>
//   Q <ctx> <clock> <op...>         an operation is about to be executed (its guards passed) by context ctx (0 = maestro/kernel, else
//                                   the actor's pid); R <ctx> = it returned, X <ctx> <what> = it raised. They nest properly per context.
//   K <clock> <reason> <op...>      operation skipped by a validity guard (the program never calls the API outside its contract)
//   s <clock> <id> <state> <ndeps> <assigned> <get_start_time> <snap>   on_this_start     S <clock> <id> <snap>  class-wide on_start
//                                   snap = get_state() of every activity in creation order (i v S F X C)
//   c <clock> <id> <state> <get_start_time> <get_finish_time>       on_this_completion   C <clock> <id> <state>  class-wide on_completion
//   v <clock> <id> <deps_solved> <assigned>                         on_this_veto
//   G <id> <kind> <state> <parts> <remaining> | <deps...> | <succs...>     structure of a loaded DAG (after 'load'); parts = resources
//                                   already set: h (host/disk), s, d (source, destination of a Comm), - none
//   F <id> <state> <ndeps> <nsuccs> <assigned> <get_start_time> <get_finish_time>   final state of each activity
//   L <clock> <id>                  livelock: <id> was vetoed 100000 times in a row at the same date; the process exits
//   Z <name> <clock>
#include <simgrid/s4u.hpp>
#include <cstdio>
#include <unistd.h>
#include <iostream>
#include <map>
#include <sstream>
#include <string>
#include <vector>
namespace sg4 = simgrid::s4u;

struct Act {
  std::string id;
  char kind = 'E';
  sg4::ActivityPtr a;
  std::vector<std::string> on_done; // ops executed in its on_this_completion callback
  std::vector<std::string> on_veto; // ops executed in its on_this_veto callback once dependencies are solved (assignment at veto)
  bool veto_fired = false;
  bool has_waiter = false;
};

static std::map<std::string, Act> acts;
static std::vector<std::string> order; // creation order
static std::map<const sg4::Activity*, std::string> ids;
static std::vector<sg4::Host*> hosts;
static double base  = 0;
static char mode    = 'M';
static bool nested_run = false;
// activities on which some context is in the middle of an operation (an operation may span several scheduling rounds because the
// API issues simcalls): another context does not touch them meanwhile (the program has no race on an activity between two actors)
static std::map<std::string, long> busy;
struct Busy {
  std::vector<std::string> mine;
  bool ok = true;
  Busy(std::initializer_list<std::string> names, long me)
  {
    for (auto const& n : names) {
      auto it = busy.find(n);
      if (it != busy.end() && it->second != me)
        ok = false;
    }
    if (ok)
      for (auto const& n : names)
        if (busy.find(n) == busy.end()) {
          busy[n] = me;
          mine.push_back(n);
        }
  }
  ~Busy()
  {
    for (auto const& n : mine)
      busy.erase(n);
  }
};
static sg4::Engine* engine;

static double now()
{
  return sg4::Engine::get_clock();
}
// tag of the execution context that performs an operation (0 = maestro / kernel context): Q/R/X records nest properly per context
static long who()
{
  return sg4::Actor::is_maestro() ? 0 : static_cast<long>(sg4::this_actor::get_pid());
}
static char state_char(const sg4::Activity& a)
{
  switch (a.get_state()) {
    case sg4::Activity::State::INITED:
      return 'i';
    case sg4::Activity::State::STARTING:
      return 'v';
    case sg4::Activity::State::STARTED:
      return 'S';
    case sg4::Activity::State::FINISHED:
      return 'F';
    case sg4::Activity::State::FAILED:
      return 'X';
    default:
      return 'C';
  }
}
static std::string snapshot();
static const char* idof(const sg4::Activity& a)
{
  auto it = ids.find(&a);
  return it == ids.end() ? "?" : it->second.c_str();
}
static bool startable(const sg4::Activity& a)
{
  return a.get_state() == sg4::Activity::State::INITED || a.get_state() == sg4::Activity::State::STARTING;
}
static bool terminal(const sg4::Activity& a)
{
  auto s = a.get_state();
  return s == sg4::Activity::State::FINISHED || s == sg4::Activity::State::FAILED || s == sg4::Activity::State::CANCELED;
}

// Actor-driven modes: starting an activity is not atomic (Exec/Io/Comm::do_start issue a simcall, so other actors run while the
// activity is still STARTING), and SimGrid itself starts the successors of a completed activity from within wait()/test(). An
// activity that is STARTING with solved dependencies and all its resources is therefore either being started right now by another
// actor, or stuck; in both cases a careful program leaves it alone (no new dependency, no second start(), no re-assignment).
static bool being_started(const sg4::Activity& a)
{
  return mode != 'M' && a.get_state() == sg4::Activity::State::STARTING && a.dependencies_solved() && a.is_assigned();
}
// Likewise an activity that is FINISHED but still has successors is in the middle of release_dependencies() in another actor.
static bool releasing(const sg4::Activity& a)
{
  return mode != 'M' && a.get_state() == sg4::Activity::State::FINISHED && not a.get_successors().empty();
}
static void exec_op(const std::string& line);
static std::string snapshot()
{
  std::string r;
  for (auto const& id : order)
    r += state_char(*acts[id].a);
  return r.empty() ? "-" : r;
}

template <class T> static void hook(T* t)
{
  t->on_this_start_cb([](T const& x) {
    printf("s %.17g %s %s %zu %d %.17g %s\n", now(), idof(x), x.get_state_str(), x.get_dependencies().size(), x.is_assigned() ? 1 : 0,
           x.get_start_time(), snapshot().c_str());
  });
  t->on_this_completion_cb([](T const& x) {
    printf("c %.17g %s %s %.17g %.17g\n", now(), idof(x), x.get_state_str(), x.get_start_time(), x.get_finish_time());
    auto it = ids.find(&x);
    if (it != ids.end() && x.get_state() != sg4::Activity::State::FAILED && x.get_state() != sg4::Activity::State::CANCELED) {
      auto ops = acts[it->second].on_done; // copy: the ops may register more
      acts[it->second].on_done.clear();
      for (auto const& op : ops)
        exec_op(op);
    }
  });
  t->on_this_veto_cb([](T& x) {
    // livelock detector: the same activity vetoed again and again at the same date with no other veto in between (each legitimate
    // veto needs an operation of the program or a completion: a finite number per date)
    static const sg4::Activity* last = nullptr;
    static double last_clock         = -1;
    static unsigned long run         = 0;
    if (last == &x && last_clock == now())
      run++;
    else {
      last       = &x;
      last_clock = now();
      run        = 1;
    }
    if (run > 100000) {
      printf("L %.17g %s\n", now(), idof(x));
      fflush(stdout);
      _exit(0);
    }
    if (run > 3)
      return;
    printf("v %.17g %s %d %d\n", now(), idof(x), x.dependencies_solved() ? 1 : 0, x.is_assigned() ? 1 : 0);
    auto it = ids.find(&x);
    if (it != ids.end() && x.dependencies_solved() && not x.is_assigned() && not acts[it->second].veto_fired &&
        not acts[it->second].on_veto.empty()) {
      acts[it->second].veto_fired = true;
      auto ops                    = acts[it->second].on_veto;
      for (auto const& op : ops)
        exec_op(op);
    }
  });
}

// wait() starts an INITED activity itself: do it beforehand through a guarded operation, so that this implicit start never races with
// an operation of another actor on the same activity (Exec/Io::do_start issue a simcall: the activity stays STARTING meanwhile)
static void start_before_wait(const std::string& id)
{
  sg4::ActivityPtr a = acts[id].a;
  while (a->get_state() == sg4::Activity::State::INITED) {
    exec_op("start " + id);
    if (a->get_state() == sg4::Activity::State::INITED)
      sg4::this_actor::yield();
  }
}

static void spawn_waiter(const std::string& id)
{
  // modes P and Q: one waiter actor per activity, blocked in wait() from the creation of the activity on.
  // P waits through the base class (ActivityPtr::wait), Q through the concrete class (CommPtr::wait for a Comm).
  sg4::ActivityPtr a = acts[id].a;
  char kind          = acts[id].kind;
  bool typed         = mode == 'Q';
  hosts[0]->add_actor("w-" + id, [a, kind, typed, id]() {
    start_before_wait(id);
    if (typed && kind == 'C')
      static_cast<sg4::Comm*>(a.get())->wait();
    else if (typed && kind == 'E')
      static_cast<sg4::Exec*>(a.get())->wait();
    else if (typed && kind == 'I')
      static_cast<sg4::Io*>(a.get())->wait();
    else
      a->wait();
  });
}

static void adopt(const std::string& id, sg4::ActivityPtr a)
{
  Act& A = acts[id];
  A.id   = id;
  A.a    = a;
  if (auto* e = dynamic_cast<sg4::Exec*>(a.get())) {
    A.kind = 'E';
    hook(e);
  } else if (auto* c = dynamic_cast<sg4::Comm*>(a.get())) {
    A.kind = 'C';
    hook(c);
  } else if (auto* i = dynamic_cast<sg4::Io*>(a.get())) {
    A.kind = 'I';
    hook(i);
  }
  ids[a.get()] = id;
  order.push_back(id);
}

static void skip(const char* why, const std::string& line)
{
  printf("K %.17g %s %s\n", now(), why, line.c_str());
}

static void dump_structure()
{
  for (auto const& id : order) {
    Act& A = acts[id];
    std::string parts;
    if (A.kind == 'C') {
      auto* c = static_cast<sg4::Comm*>(A.a.get());
      parts   = std::string(c->get_source() ? "s" : "") + (c->get_destination() ? "d" : "");
    } else if (A.a->is_assigned())
      parts = "h";
    printf("G %s %c %s %s %.17g |", id.c_str(), A.kind, A.a->get_state_str(), parts.empty() ? "-" : parts.c_str(), A.a->get_remaining());
    for (auto const& d : A.a->get_dependencies())
      printf(" %s", idof(*d));
    printf(" |");
    for (auto const& s : A.a->get_successors())
      printf(" %s", idof(*s));
    printf("\n");
  }
}

// Executes one operation, guarded so that the program stays inside the API contract whatever the timing is.
static void exec_op(const std::string& line)
{
  std::istringstream is(line);
  std::string op, x, y;
  is >> op;
  if (op == "on" || op == "veto") { // on <X> <op...> : register an op for the completion (resp. resolved-dependencies veto) callback of X
    is >> x;
    std::string rest;
    std::getline(is, rest);
    while (not rest.empty() && rest[0] == ' ')
      rest.erase(0, 1);
    if (not acts.count(x))
      return skip("unknown", line);
    (op == "on" ? acts[x].on_done : acts[x].on_veto).push_back(rest);
    printf("Q %ld %.17g %s\nR %ld\n", who(), now(), line.c_str(), who());
    return;
  }
  if (op == "run") { // advance the simulation to base+T
    double t;
    is >> t;
    if (mode == 'M' ? nested_run : sg4::Actor::is_maestro())
      return skip("nested", line);
    printf("Q %ld %.17g %s\n", who(), now(), line.c_str());
    if (mode == 'M') {
      nested_run = true;
      if (base + t > now())
        engine->run_until(base + t);
      nested_run = false;
    } else
      sg4::this_actor::sleep_until(base + t);
    printf("R %ld\n", who());
    return;
  }
  if (op == "load") { // load json|dax <file>
    is >> x >> y;
    printf("Q %ld %.17g %s\n", who(), now(), line.c_str());
    std::vector<sg4::ActivityPtr> dag;
    try {
      dag = x == "json" ? sg4::create_DAG_from_json(y) : x == "dax" ? sg4::create_DAG_from_DAX(y) : sg4::create_DAG_from_dot(y);
    } catch (std::exception const& e) {
      printf("X %ld %s\n", who(), e.what());
      return;
    }
    for (auto const& a : dag)
      adopt(a->get_name(), a);
    printf("R %ld\n", who());
    dump_structure();
    return;
  }
  is >> x;
  if (op == "new") { // new <id> E|C|I <amount> [r|w]
    char kind;
    double amount;
    std::string rw;
    is >> kind >> amount >> rw;
    printf("Q %ld %.17g %s\n", who(), now(), line.c_str());
    sg4::ActivityPtr a;
    if (kind == 'E')
      a = sg4::Exec::init()->set_name(x)->set_flops_amount(amount);
    else if (kind == 'C')
      a = sg4::Comm::sendto_init()->set_name(x)->set_payload_size(static_cast<uint64_t>(amount));
    else
      a = sg4::Io::init()
              ->set_name(x)
              ->set_size(static_cast<sg_size_t>(amount))
              ->set_op_type(rw == "w" ? sg4::Io::OpType::WRITE : sg4::Io::OpType::READ);
    adopt(x, a);
    printf("R %ld\n", who());
    return;
  }
  if (op == "waiters") { // modes P/Q: spawn the waiter actors of every activity created so far that has none yet
    printf("Q %ld %.17g %s\nR %ld\n", who(), now(), line.c_str(), who());
    for (auto const& id : order)
      if (not acts[id].has_waiter) {
        acts[id].has_waiter = true;
        spawn_waiter(id);
      }
    return;
  }
  if (not acts.count(x))
    return skip("unknown", line);
  Act& A = acts[x];
  std::string second;
  if (op == "dep" || op == "depf" || op == "undep" || op == "undeps") {
    std::istringstream is2(line);
    std::string t;
    is2 >> t >> t >> second;
  }
  Busy guard(second.empty() ? std::initializer_list<std::string>{x} : std::initializer_list<std::string>{x, second}, who());
  if (not guard.ok)
    return skip("busy", line);
  try {
    if (op == "host" || op == "src" || op == "dst" || op == "disk") {
      int h;
      is >> h;
      if (not startable(*A.a))
        return skip("state", line);
      if (being_started(*A.a))
        return skip("being-started", line);
      printf("Q %ld %.17g %s\n", who(), now(), line.c_str());
      if (op == "host" && A.kind == 'E')
        static_cast<sg4::Exec*>(A.a.get())->set_host(hosts.at(h));
      else if (op == "src" && A.kind == 'C')
        static_cast<sg4::Comm*>(A.a.get())->set_source(hosts.at(h));
      else if (op == "dst" && A.kind == 'C')
        static_cast<sg4::Comm*>(A.a.get())->set_destination(hosts.at(h));
      else if (op == "disk" && A.kind == 'I')
        static_cast<sg4::Io*>(A.a.get())->set_disk(hosts.at(h)->get_disks().at(0));
      printf("R %ld\n", who());
    } else if (op == "start") {
      if (not startable(*A.a))
        return skip("state", line);
      if (being_started(*A.a))
        return skip("being-started", line);
      printf("Q %ld %.17g %s\n", who(), now(), line.c_str());
      A.a->start();
      printf("R %ld\n", who());
    } else if (op == "dep" || op == "depf") { // dep <pred> <succ>; depf: even when pred is already finished
      is >> y;
      if (not acts.count(y))
        return skip("unknown", line);
      Act& B = acts[y];
      if (not startable(*B.a))
        return skip("succ-started", line);
      if (being_started(*B.a))
        return skip("succ-being-started", line);
      if (releasing(*A.a))
        return skip("pred-releasing", line);
      if (op == "dep" && terminal(*A.a))
        return skip("pred-done", line);
      if (A.a->get_state() == sg4::Activity::State::FAILED || A.a->get_state() == sg4::Activity::State::CANCELED)
        return skip("pred-failed", line);
      for (auto const& s : A.a->get_successors())
        if (s.get() == B.a.get())
          return skip("dup", line);
      printf("Q %ld %.17g %s\n", who(), now(), line.c_str());
      if (A.kind == 'E')
        static_cast<sg4::Exec*>(A.a.get())->add_successor(B.a);
      else if (A.kind == 'C')
        static_cast<sg4::Comm*>(A.a.get())->add_successor(B.a);
      else
        static_cast<sg4::Io*>(A.a.get())->add_successor(B.a);
      printf("R %ld\n", who());
    } else if (op == "undep" || op == "undeps") { // undep <pred> <succ>; undeps: and start() the successor again if it was vetoed
      is >> y;
      if (not acts.count(y))
        return skip("unknown", line);
      Act& B     = acts[y];
      bool found = false;
      for (auto const& s : A.a->get_successors())
        found = found || s.get() == B.a.get();
      if (not found)
        return skip("no-edge", line);
      if (releasing(*A.a))
        return skip("pred-releasing", line);
      printf("Q %ld %.17g %s\n", who(), now(), line.c_str());
      if (A.kind == 'E')
        static_cast<sg4::Exec*>(A.a.get())->remove_successor(B.a);
      else if (A.kind == 'C')
        static_cast<sg4::Comm*>(A.a.get())->remove_successor(B.a);
      else
        static_cast<sg4::Io*>(A.a.get())->remove_successor(B.a);
      printf("R %ld\n", who());
      if (op == "undeps" && B.a->get_state() == sg4::Activity::State::STARTING && B.a->dependencies_solved()) {
        // its start() was vetoed by the dependency we have just removed (nobody else can be starting it): ask again
        printf("Q %ld %.17g start %s\n", who(), now(), y.c_str());
        B.a->start();
        printf("R %ld\n", who());
      }
    } else
      skip("unknown-op", line);
  } catch (std::exception const& e) {
    printf("X %ld %s\n", who(), e.what());
  }
}

static void finals()
{
  for (auto const& id : order) {
    Act& A = acts[id];
    printf("F %s %s %zu %zu %d %.17g %.17g\n", id.c_str(), A.a->get_state_str(), A.a->get_dependencies().size(),
           A.a->get_successors().size(), A.a->is_assigned() ? 1 : 0, A.a->get_start_time(), A.a->get_finish_time());
  }
}

static void drive(const std::vector<std::string>& ops, const std::vector<std::string>& waitorder)
{
  for (auto const& op : ops)
    exec_op(op);
  if (mode == 'M') {
    engine->run();
  } else if (mode == 'A') {
    sg4::ActivitySet set;
    for (auto const& id : order)
      if (not terminal(*acts[id].a))
        set.push(acts[id].a);
    while (not set.empty())
      set.wait_any();
  } else if (mode == 'W') {
    for (auto const& id : waitorder.empty() ? order : waitorder)
      if (acts.count(id) && not terminal(*acts[id].a)) {
        start_before_wait(id);
        acts[id].a->wait();
      }
  } else if (mode == 'P' || mode == 'Q') {
    exec_op("waiters");
    // the builder stays alive (the activities of an exiting actor are canceled) until the waiters have seen everything complete
    bool left = true;
    while (left && now() < base + 1000) {
      left = false;
      for (auto const& id : order)
        left = left || not terminal(*acts[id].a);
      if (left)
        sg4::this_actor::sleep_for(0.25);
    }
    if (left)
      sg4::Semaphore::create(0)->acquire(); // never exit with pending activities (they would be canceled): block for ever and let
                                            // the engine report the deadlock
  } else if (mode == 'T') {
    bool left = true;
    while (left && now() < base + 1000) { // bounded: an activity that never starts must not make the polling loop endless
      left = false;
      for (auto const& id : order) {
        if (terminal(*acts[id].a))
          continue;
        Busy guard({id}, who()); // test() calls start() on a not yet started activity: not while another actor operates on it
        if (not guard.ok || not acts[id].a->test())
          left = true;
      }
      if (left)
        sg4::this_actor::sleep_for(0.25);
    }
    if (left)
      sg4::Semaphore::create(0)->acquire(); // never exit with pending activities (they would be canceled): block for ever and let
                                            // the engine report the deadlock
  }
}

int main(int argc, char** argv)
{
  sg4::Engine e(&argc, argv);
  engine = &e;
  setvbuf(stdout, nullptr, _IOLBF, 0);
  int nh     = 6;
  auto* zone = e.get_netzone_root()->add_netzone_full("z");
  for (int i = 0; i < nh; i++) {
    auto* h = zone->add_host("h" + std::to_string(i), static_cast<double>(1 << (i % 3)));
    h->add_disk("d" + std::to_string(i), 4096.0, 2048.0);
    hosts.push_back(h);
  }
  const double lats[3] = {0.0, 0.5, 0.25};
  for (int i = 0; i < nh; i++)
    for (int j = i + 1; j < nh; j++) {
      auto* l = zone->add_link("l" + std::to_string(i) + "_" + std::to_string(j), static_cast<double>(1 << ((i + j) % 3)))
                    ->set_latency(lats[(i * j) % 3]);
      zone->add_route(hosts[i], hosts[j], {l});
    }
  zone->seal();

  sg4::Exec::on_start_cb([](sg4::Exec const& x) { printf("S %.17g %s %s\n", now(), idof(x), snapshot().c_str()); });
  sg4::Comm::on_start_cb([](sg4::Comm const& x) { printf("S %.17g %s %s\n", now(), idof(x), snapshot().c_str()); });
  sg4::Io::on_start_cb([](sg4::Io const& x) { printf("S %.17g %s %s\n", now(), idof(x), snapshot().c_str()); });
  sg4::Exec::on_completion_cb([](sg4::Exec const& x) { printf("C %.17g %s %s\n", now(), idof(x), x.get_state_str()); });
  sg4::Comm::on_completion_cb([](sg4::Comm const& x) { printf("C %.17g %s %s\n", now(), idof(x), x.get_state_str()); });
  sg4::Io::on_completion_cb([](sg4::Io const& x) { printf("C %.17g %s %s\n", now(), idof(x), x.get_state_str()); });

  std::string line;
  std::string name;
  std::vector<std::string> ops, waitorder;
  std::map<int, std::vector<std::string>> helpers; // '@k op' lines: executed by helper actor k (actor modes only)
  while (std::getline(std::cin, line)) {
    if (line.empty())
      continue;
    if (line[0] == 'S' && line[1] == ' ') {
      std::istringstream is(line);
      std::string s;
      is >> s >> name >> mode;
      ops.clear();
      waitorder.clear();
      helpers.clear();
    } else if (line[0] == '@') {
      std::istringstream is(line.substr(1));
      int k;
      is >> k;
      std::string rest;
      std::getline(is, rest);
      while (not rest.empty() && rest[0] == ' ')
        rest.erase(0, 1);
      helpers[k].push_back(rest);
    } else if (line.rfind("waitorder", 0) == 0) {
      std::istringstream is(line);
      std::string s;
      is >> s;
      while (is >> s)
        waitorder.push_back(s);
    } else if (line == "E") {
      acts.clear();
      order.clear();
      ids.clear();
      busy.clear();
      base  = now();
      printf("B %s %c %.17g\n", name.c_str(), mode, base);
      if (mode == 'M') {
        drive(ops, waitorder);
      } else {
        hosts[0]->add_actor("driver", [ops, waitorder]() { drive(ops, waitorder); });
        for (auto const& [k, hops] : helpers)
          hosts[(k + 1) % hosts.size()]->add_actor("helper" + std::to_string(k), [hops]() {
            for (auto const& op : hops)
              exec_op(op);
          });
        e.run();
      }
      finals();
      printf("Z %s %.17g\n", name.c_str(), now());
      // drop our references (activities still blocked keep each other alive through their dependency sets: harmless)
      acts.clear();
      order.clear();
      ids.clear();
    } else
      ops.push_back(line);
  }
  printf("END\n");
  return 0;
}
