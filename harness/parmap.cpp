// E4 harness for C49: stress of the real xbt Parmap; every element carries an atomic counter.
// argv: seed reps ; stdout: one line per (mode, workers, len): "CFG mode nw len applies item_checks bad maxcount mincount"
#include "src/internal_config.h"
#include "src/xbt/parmap.hpp"
#include "simgrid/s4u/Engine.hpp"
#include <atomic>
#include <cstdio>
#include <cstdlib>
#include <random>
XBT_LOG_NEW_DEFAULT_CATEGORY(verif_pm, "pm");
struct Item {
  std::atomic<int> count{0};
  std::atomic<unsigned long> who{0};
};
int main(int argc, char** argv)
{
  simgrid::s4u::Engine e(&argc, argv);
  unsigned seed = argc > 1 ? atoi(argv[1]) : 1;
  int reps      = argc > 2 ? atoi(argv[2]) : 20;
  std::mt19937 g(seed);
  std::vector<size_t> lens = {0, 1, 2, 3, 7, 16, 17, 100, 500};
  for (int i = 0; i < 4; i++)
    lens.push_back(g() % 2000);
  for (int mode : {(int)XBT_PARMAP_POSIX, (int)XBT_PARMAP_FUTEX, (int)XBT_PARMAP_BUSY_WAIT})
    for (unsigned nw : {1u, 2u, 3u, 5u, 8u, 16u}) {
      simgrid::xbt::Parmap<Item*> parmap(nw, (e_xbt_parmap_mode_t)mode);
      for (size_t len : lens) {
        std::vector<Item> store(len);
        std::vector<Item*> data;
        for (auto& i : store)
          data.push_back(&i);
        long bad = 0, applies = 0, items = 0;
        int mx = 0, mn = 1 << 30;
        unsigned spin = g() % 200;
        for (int rep = 1; rep <= reps; rep++) {
          parmap.apply(
              [spin](Item* it) {
                for (volatile unsigned k = 0; k < spin; k = k + 1)
                  ;
                it->count.fetch_add(1, std::memory_order_relaxed);
              },
              data);
          applies++;
          for (auto& i : store) {
            items++;
            int c = i.count.load();
            if (c != rep)
              bad++;
            if (c - rep > mx) mx = c - rep;
            if (c - rep < mn) mn = c - rep;
          }
        }
        if (len == 0) mx = mn = 0;
        printf("CFG %d %u %zu %ld %ld %ld %d %d\n", mode, nw, len, applies, items, bad, mx, mn);
        fflush(stdout);
      }
    }
  return 0;
}
