// Harness for C12 (timed waits are exact).
// stdin: one scenario per line, tokens key=value (doubles in any strtod syntax, printed back with %.17g).
// Every scenario is run in a forked child (one Engine per process; the dynamic loading of libsimgrid is paid once).
// stdout (line buffered): "B <id>" before the fork, the child's records "R <id> <who> <tag> k=v ...", and "X <id> <status>"
// once the child is reaped (status = exit code, or 1000+signal). Whatever the child writes on stderr is redirected to stdout,
// so that an assertion message lands between the B and X lines of its scenario.
//
// Scenario keys (defaults in brackets):
//   id kind=exec|comm|io|mess   role=send|recv (comm) put|get (mess)   [send/put]
//   speed flops bg(=flops of a background exec started at 0 on the waiter's host) [0]
//   size bw lat p(=date at which the peer posts its blocking counterpart)
//   iosize rbw wbw ioop=read|write
//   pre(=date at which the waiter creates the activity) started=0|1 w(=sleep between creation and the timed call) wabs(=sleep_until date, -1 none)
//   mode=none|for|until|forcancel|anyfor  via=typed|base  tv(=timeout, or absolute limit for until; <0 = no timeout)
//   decoy(=flops of a second exec, on its own host, pushed in the activity set; 0 none) dspeed
//   z(=sleep after a cancel before looking at the activity again) probe=0|1 (run the same exec/io again, alone, and time it)
#include <simgrid/s4u.hpp>
#include <cstdio>
#include <cstdlib>
#include <cstring>
#include <iostream>
#include <map>
#include <sstream>
#include <string>
#include <sys/wait.h>
#include <typeinfo>
#include <unistd.h>
#include <vector>

namespace sg4 = simgrid::s4u;

struct Sc {
  std::map<std::string, std::string> kv;
  std::string id;
  double num(const char* k, double def) const
  {
    auto it = kv.find(k);
    return it == kv.end() ? def : strtod(it->second.c_str(), nullptr);
  }
  std::string str(const char* k, const char* def) const
  {
    auto it = kv.find(k);
    return it == kv.end() ? def : it->second;
  }
};

static double now()
{
  return sg4::Engine::get_clock();
}
static const char* ID;
#define LOG(who, fmt, ...) printf("R %s %s " fmt "\n", ID, who, ##__VA_ARGS__)

static int payload_orig = 1, payload_bye = 2;
static int* rbuf_main   = nullptr; // destination of the waiter's timed receive
static const char* pname(const void* p)
{
  return p == &payload_orig ? "orig" : p == &payload_bye ? "bye" : p == nullptr ? "null" : "junk";
}
static std::string exc_name(const std::exception& e)
{
  std::string n = typeid(e).name();
  for (const char* k : {"TimeoutException", "CancelException", "NetworkFailureException", "HostFailureException", "StorageFailureException"})
    if (n.find(k) != std::string::npos)
      return k;
  return n;
}

// ---- the peer of a comm or mess scenario: posts the blocking counterpart at date p, then follows the bye protocol
static void peer(const Sc& sc)
{
  std::string kind = sc.str("kind", "exec");
  std::string role = sc.str("role", kind == "comm" ? "send" : "put");
  double p         = sc.num("p", 0);
  double size      = sc.num("size", 1e6);
  if (p > 0)
    sg4::this_actor::sleep_for(p);
  bool peer_receives = (role == "send" || role == "put");
  auto* mb           = sg4::Mailbox::by_name("mb");
  auto* mq           = sg4::MessageQueue::by_name("mq");
  if (peer_receives) {
    for (int i = 0; i < 6; i++) {
      double c = now();
      try {
        int* got = (kind == "comm") ? mb->get<int>() : mq->get<int>();
        LOG("peer", "get call=%.17g ret=%.17g out=ok payload=%s", c, now(), pname(got));
        if (got == &payload_bye)
          break;
      } catch (const std::exception& e) {
        LOG("peer", "get call=%.17g ret=%.17g out=exc:%s payload=none", c, now(), exc_name(e).c_str());
      }
    }
  } else {
    for (int* what : {&payload_orig, &payload_bye}) {
      double c = now();
      try {
        if (kind == "comm")
          mb->put(what, static_cast<uint64_t>(size));
        else
          mq->put(what);
        LOG("peer", "put call=%.17g ret=%.17g out=ok payload=%s", c, now(), pname(what));
      } catch (const std::exception& e) {
        LOG("peer", "put call=%.17g ret=%.17g out=exc:%s payload=%s", c, now(), exc_name(e).c_str(), pname(what));
      }
    }
  }
  LOG("peer", "end clock=%.17g", now());
}

template <class Ptr> static void timed_call(const std::string& mode, const std::string& via, Ptr typed, double tv)
{
  sg4::Activity* base = typed.get();
  if (mode == "none") {
    if (via == "base")
      base->wait();
    else
      typed->wait();
  } else if (mode == "for") {
    if (via == "base")
      base->wait_for(tv);
    else
      typed->wait_for(tv);
  } else if (mode == "until") {
    typed->wait_until(tv);
  } else if (mode == "forcancel") {
    typed->wait_for_or_cancel(tv);
  }
}

template <class Ptr> static void waiter_body(const Sc& sc, Ptr act, sg4::Host* me, sg4::Link* link)
{
  std::string kind = sc.str("kind", "exec");
  std::string mode = sc.str("mode", "none");
  std::string via  = sc.str("via", "typed");
  double tv        = sc.num("tv", -1);
  double w         = sc.num("w", 0);
  double wabs      = sc.num("wabs", -1);
  double dflops    = sc.num("decoy", 0);
  bool started     = sc.num("started", 1) != 0;
  sg4::Activity* base = act.get();

  if (started)
    act->start();
  sg4::ExecPtr dec;
  if (dflops > 0) {
    dec = sg4::Exec::init()->set_flops_amount(dflops)->set_host(sg4::Host::by_name("hd"));
    dec->set_name("decoy");
    dec->start();
  }
  LOG("waiter", "created clock=%.17g state=%s", now(), base->get_state_str());
  if (w > 0)
    sg4::this_actor::sleep_for(w);
  if (wabs >= 0)
    sg4::this_actor::sleep_until(wabs);

  double c          = now();
  std::string out   = "ok";
  std::string which = "none";
  LOG("waiter", "call clock=%.17g state=%s", c, base->get_state_str());
  try {
    if (mode == "anyfor") {
      sg4::ActivitySet set;
      set.push(act);
      if (dec)
        set.push(dec);
      auto r = set.wait_any_for(tv);
      which  = r.get() == base ? "main" : (dec && r.get() == dec.get()) ? "decoy" : r.get() == nullptr ? "null" : "other";
      LOG("waiter", "setsize n=%zu", set.size());
    } else {
      timed_call(mode, via, act, tv);
      which = "main";
    }
  } catch (const simgrid::TimeoutException&) {
    out = "timeout";
  } catch (const std::exception& e) {
    out = "exc:" + exc_name(e);
  }
  // get_remaining() is only asked to execs and I/Os (a mailbox comm completed by the one-simcall path has no kernel activity attached)
  bool has_rem = (kind == "exec" || kind == "io");
  LOG("waiter", "ret clock=%.17g out=%s which=%s state=%s rem=%.17g decstate=%s", now(), out.c_str(), which.c_str(), base->get_state_str(),
      has_rem ? base->get_remaining() : -1.0, dec ? dec->get_state_str() : "none");

  bool main_done = base->get_state() == sg4::Activity::State::FINISHED;
  if (out == "timeout" && mode == "forcancel") {
    LOG("waiter", "cancelchk clock=%.17g state=%s rem=%.17g hostload=%.17g linkload=%.17g", now(), base->get_state_str(),
        has_rem ? base->get_remaining() : -1.0, me->get_load(), link->get_load());
    double z = sc.num("z", 0);
    if (z > 0)
      sg4::this_actor::sleep_for(z);
    LOG("waiter", "later clock=%.17g state=%s rem=%.17g hostload=%.17g linkload=%.17g", now(), base->get_state_str(),
        has_rem ? base->get_remaining() : -1.0, me->get_load(), link->get_load());
    std::string o2 = "ok";
    try {
      act->wait();
    } catch (const std::exception& e) {
      o2 = "exc:" + exc_name(e);
    }
    LOG("waiter", "again clock=%.17g out=%s state=%s", now(), o2.c_str(), base->get_state_str());
  } else if (not main_done) {
    // timed out (or returned without completion): the activity must still be alive and complete at its natural date
    double zs = sc.num("zs", 0);
    if (zs > 0 && out == "timeout") {
      // first another timed wait that straddles that natural date, on an exec that cannot complete: it must raise its own
      // timeout exactly zs later; the expired timed wait must not answer it when the first activity completes
      double s0       = now();
      std::string o3  = "ok";
      sg4::ExecPtr ex = sg4::this_actor::exec_init(1e30);
      try {
        ex->wait_for(zs);
      } catch (const simgrid::TimeoutException&) {
        o3 = "timeout";
      } catch (const std::exception& e) {
        o3 = "exc:" + exc_name(e);
      }
      LOG("waiter", "slept from=%.17g clock=%.17g d=%.17g out=%s exstate=%s", s0, now(), zs, o3.c_str(), ex->get_state_str());
      ex->cancel();
    }
    std::string o2 = "ok";
    try {
      act->wait();
    } catch (const std::exception& e) {
      o2 = "exc:" + exc_name(e);
    }
    LOG("waiter", "again clock=%.17g out=%s state=%s", now(), o2.c_str(), base->get_state_str());
  }
  if (dec && dec->get_state() != sg4::Activity::State::FINISHED) {
    if (mode == "none")
      dec->wait(); // reference run: observe the decoy's natural completion date (sig line)
    else
      dec->cancel();
  }
  if (kind == "comm" || kind == "mess") {
    std::string role = sc.str("role", kind == "comm" ? "send" : "put");
    auto* mb         = sg4::Mailbox::by_name("mb");
    auto* mq         = sg4::MessageQueue::by_name("mq");
    double size      = sc.num("size", 1e6);
    if (role == "send" || role == "put") {
      double c2 = now();
      try {
        if (kind == "comm")
          mb->put(&payload_bye, static_cast<uint64_t>(size));
        else
          mq->put(&payload_bye);
        LOG("waiter", "put call=%.17g ret=%.17g out=ok payload=bye", c2, now());
      } catch (const std::exception& e) {
        LOG("waiter", "put call=%.17g ret=%.17g out=exc:%s payload=bye", c2, now(), exc_name(e).c_str());
      }
    } else {
      LOG("waiter", "rbuf payload=%s", pname(rbuf_main));
      for (int i = 0; i < 6 && rbuf_main != &payload_bye; i++) {
        double c2 = now();
        try {
          int* got = (kind == "comm") ? mb->get<int>() : mq->get<int>();
          LOG("waiter", "get call=%.17g ret=%.17g out=ok payload=%s", c2, now(), pname(got));
          if (got == &payload_bye)
            break;
        } catch (const std::exception& e) {
          LOG("waiter", "get call=%.17g ret=%.17g out=exc:%s payload=none", c2, now(), exc_name(e).c_str());
        }
      }
      LOG("waiter", "rbuf payload=%s", pname(rbuf_main));
    }
  }
}

static void waiter(const Sc& sc)
{
  std::string kind = sc.str("kind", "exec");
  double pre       = sc.num("pre", 0);
  auto* me         = sg4::Host::by_name("hw");
  auto* link       = sg4::Link::by_name("l");
  if (pre > 0)
    sg4::this_actor::sleep_for(pre);
  if (kind == "exec") {
    sg4::ExecPtr ex = sg4::Exec::init()->set_flops_amount(sc.num("flops", 1e9))->set_host(me);
    ex->set_name("main");
    waiter_body(sc, ex, me, link);
    if (sc.num("probe", 0) != 0) {
      double t0 = now();
      sg4::this_actor::execute(sc.num("flops", 1e9));
      LOG("waiter", "probe start=%.17g end=%.17g", t0, now());
    }
  } else if (kind == "io") {
    auto* disk = me->get_disks().front();
    auto op    = sc.str("ioop", "read") == "read" ? sg4::Io::OpType::READ : sg4::Io::OpType::WRITE;
    sg4::IoPtr io = disk->io_init(static_cast<sg_size_t>(sc.num("iosize", 1e6)), op);
    io->set_name("main");
    waiter_body(sc, io, me, link);
    if (sc.num("probe", 0) != 0) {
      double t0 = now();
      disk->io_init(static_cast<sg_size_t>(sc.num("iosize", 1e6)), op)->start()->wait();
      LOG("waiter", "probe start=%.17g end=%.17g", t0, now());
    }
  } else if (kind == "comm") {
    auto* mb = sg4::Mailbox::by_name("mb");
    sg4::CommPtr comm;
    if (sc.str("role", "send") == "send")
      comm = mb->put_init(&payload_orig, static_cast<uint64_t>(sc.num("size", 1e6)));
    else
      comm = mb->get_init()->set_dst_data(reinterpret_cast<void**>(&rbuf_main), sizeof(void*));
    comm->set_name("main");
    waiter_body(sc, comm, me, link);
  } else if (kind == "mess") {
    auto* mq = sg4::MessageQueue::by_name("mq");
    sg4::MessPtr mess;
    if (sc.str("role", "put") == "put")
      mess = mq->put_init(&payload_orig);
    else
      mess = mq->get_init()->set_dst_data(reinterpret_cast<void**>(&rbuf_main), sizeof(void*));
    mess->set_name("main");
    waiter_body(sc, mess, me, link);
  }
  LOG("waiter", "end clock=%.17g", now());
}

static int run_scenario(const Sc& sc, int argc, char** argv)
{
  ID = sc.id.c_str();
  sg4::Engine e(&argc, argv);
  auto* root = e.get_netzone_root();
  auto* hw   = root->add_host("hw", sc.num("speed", 1e9));
  auto* hp   = root->add_host("hp", 1e9);
  root->add_host("hd", sc.num("dspeed", 1e9));
  auto* l = root->add_link("l", sc.num("bw", 1e8))->set_latency(sc.num("lat", 1e-4));
  root->add_route(hw, hp, {l});
  hw->add_disk("disk", sc.num("rbw", 1e8), sc.num("wbw", 5e7));
  root->seal();

  sg4::Exec::on_completion_cb([](sg4::Exec const& a) { LOG("sig", "exec name=%s clock=%.17g state=%s start=%.17g finish=%.17g", a.get_cname(), now(), a.get_state_str(), a.get_start_time(), a.get_finish_time()); });
  sg4::Io::on_completion_cb([](sg4::Io const& a) { LOG("sig", "io name=%s clock=%.17g state=%s start=%.17g finish=%.17g", a.get_cname(), now(), a.get_state_str(), a.get_start_time(), a.get_finish_time()); });
  sg4::Comm::on_completion_cb([](sg4::Comm const& a) { LOG("sig", "comm name=%s clock=%.17g state=%s start=%.17g finish=%.17g", a.get_cname(), now(), a.get_state_str(), a.get_start_time(), a.get_finish_time()); });
  sg4::Mess::on_completion_cb([](sg4::Mess const& a) { LOG("sig", "mess name=%s clock=%.17g state=%s", a.get_cname(), now(), a.get_state_str()); });

  std::string kind = sc.str("kind", "exec");
  hw->add_actor("waiter", [&sc]() { waiter(sc); });
  if (kind == "comm" || kind == "mess")
    hp->add_actor("peer", [&sc]() { peer(sc); });
  double bg = sc.num("bg", 0);
  if (bg > 0)
    hw->add_actor("bg", [bg]() { sg4::this_actor::execute(bg); });
  e.run();
  LOG("main", "simend clock=%.17g", now());
  fflush(stdout);
  return 0;
}

int main(int argc, char** argv)
{
  setvbuf(stdout, nullptr, _IOLBF, 0);
  std::string line;
  while (std::getline(std::cin, line)) {
    Sc sc;
    std::istringstream is(line);
    std::string tok;
    while (is >> tok) {
      auto eq = tok.find('=');
      if (eq != std::string::npos)
        sc.kv[tok.substr(0, eq)] = tok.substr(eq + 1);
    }
    if (sc.kv.find("id") == sc.kv.end())
      continue;
    sc.id = sc.kv["id"];
    printf("B %s\n", sc.id.c_str());
    fflush(stdout);
    pid_t pid = fork();
    if (pid == 0) {
      dup2(1, 2);
      int rc = run_scenario(sc, argc, argv);
      fflush(stdout);
      _exit(rc);
    }
    int st = 0;
    waitpid(pid, &st, 0);
    int status = WIFEXITED(st) ? WEXITSTATUS(st) : 1000 + WTERMSIG(st);
    printf("X %s %d\n", sc.id.c_str(), status);
    fflush(stdout);
  }
  return 0;
}
