// E1-style harness shared by C22 (availability profiles) and C23 (energy accounting).
// A scenario (stdin, one record per line) describes a platform built through the C++ platform API, the profiles attached to
// its resources (ProfileBuilder::from_string / from_file), optional plugins, and scripted actors.  The harness only executes
// and records; every decision is taken by the Python oracle.
//
//   plugin host_energy|link_energy
//   host NAME CORES SPEED[,SPEED..] [key=value ...]            (properties, e.g. wattage_per_state=..., wattage_off=...; @pstate=K: initial pstate)
//   link NAME BW LAT SHARED|FATPIPE [key=value ...]
//   route HOST1 HOST2 LINK[,LINK...]                           (symmetrical)
//   profile KIND RES str PERIODICITY  + text lines + "endprofile"      KIND: speed hstate bw lat lstate
//   profile KIND RES file PATH
//   xml PATH                                                   load the whole platform (hosts, links, routes, *_file profiles) from an XML file instead
//   actor NAME HOST + op lines + "endactor"
// ops: until T | sleepfor D | yield | sample | energy
//      exec ID HOST FLOPS BOUND PRIO THREADS          (blocking; BOUND<=0: none)
//      xstart ID HOST FLOPS BOUND PRIO THREADS | xwait ID | xsuspend ID | xresume ID | xcancel ID | xmigrate ID HOST
//      comm ID SRC DST BYTES (blocking sendto) | cstart ID SRC DST BYTES | cwait ID
//      pstate HOST P | off HOST | on HOST | loff LINK | lon LINK
// output (doubles as %.17g):
//   CB clock hspeed|honoff|lbw|lonoff NAME values...           signals fired by the resource itself
//   T clock <state of every resource>                          at every Engine::on_time_advance
//   S actor clock <state of every resource>                    'sample' op
//   E actor clock NAME=joules ...                              'energy' op (hosts with a wattage_per_state, all links if link_energy)
//   XS id clock host / XE id clock status start_time finish_time                      start / end of an exec as seen by the issuing actor (status ok|hostfail|canceled)
//   AX start|end name clock                                    Exec::on_start_cb / on_completion_cb
//   AC end name clock                                          Comm::on_completion_cb
//   CS id clock / CE id clock status                           comm start / end (status ok|netfail)
//   OP actor clock op...                                       control ops (pstate/off/on/suspend/...) when executed
//   EF clock NAME=joules ...                                   same as E, read by maestro after Engine::run() returned
//   END clock
#include <simgrid/Exception.hpp>
#include <simgrid/kernel/ProfileBuilder.hpp>
#include <simgrid/plugins/energy.h>
#include <simgrid/s4u.hpp>
#include <cstdio>
#include <iostream>
#include <map>
#include <set>
#include <sstream>
#include <vector>
namespace sg4 = simgrid::s4u;

static std::vector<sg4::Host*> hosts;
static std::vector<sg4::Link*> links;
static std::vector<sg4::Host*> ehosts; // hosts with an energy profile
static bool with_link_energy = false;
static bool with_load        = true; // Host::get_load() dereferences a null constraint under cpu/optim:TI
static bool avail_only_profiled = false; // under cpu/optim:TI Host::get_available_speed() crashes on a host without speed profile
static std::set<std::string> speed_profiled;
static std::map<std::string, sg4::ExecPtr> execs;
static std::map<std::string, sg4::CommPtr> comms;

static void print_state()
{
  for (auto const* h : hosts)
    printf(" h %s %.17g %.17g %d %lu %.17g", h->get_cname(), h->get_speed(),
           (avail_only_profiled && speed_profiled.count(h->get_name()) == 0) ? -1.0 : h->get_available_speed(),
           h->is_on() ? 1 : 0, h->get_pstate(), with_load ? h->get_load() : -1.0);
  for (auto const* l : links)
    printf(" l %s %.17g %.17g %d %.17g", l->get_cname(), l->get_bandwidth(), l->get_latency(), l->is_on() ? 1 : 0,
           l->get_load());
  printf("\n");
}

static std::map<std::string, sg4::ActorPtr> helpers;

static void wait_exec(const std::string& id, sg4::ExecPtr x)
{
  const char* st = "ok";
  try {
    x->wait();
  } catch (const simgrid::HostFailureException&) {
    st = "hostfail";
  } catch (const simgrid::CancelException&) {
    st = "canceled";
  }
  printf("XE %s %.17g %s %.17g %.17g\n", id.c_str(), sg4::Engine::get_clock(), st, x->get_start_time(), x->get_finish_time());
}

static void wait_comm(const std::string& id, sg4::CommPtr c)
{
  const char* st = "ok";
  try {
    c->wait();
  } catch (const simgrid::NetworkFailureException&) {
    st = "netfail";
  }
  printf("CE %s %.17g %s %.17g %.17g\n", id.c_str(), sg4::Engine::get_clock(), st, c->get_start_time(), c->get_finish_time());
}

struct Op {
  std::vector<std::string> t;
};

static void run_actor(const std::string& me, const std::vector<Op>& ops)
{
  for (auto const& op : ops) {
    auto const& t         = op.t;
    const std::string& k  = t[0];
    if (k == "until") {
      double d = std::stod(t[1]);
      if (d > sg4::Engine::get_clock())
        sg4::this_actor::sleep_until(d);
    } else if (k == "sleepfor") {
      sg4::this_actor::sleep_for(std::stod(t[1]));
    } else if (k == "yield") {
      sg4::this_actor::yield();
    } else if (k == "sample") {
      printf("S %s %.17g", me.c_str(), sg4::Engine::get_clock());
      print_state();
    } else if (k == "energy") {
      // every value may need a simcall: read them all first, print one line
      std::vector<std::pair<std::string, double>> vals;
      for (auto const* h : ehosts)
        vals.emplace_back(h->get_name(), sg_host_get_consumed_energy(h));
      if (with_link_energy)
        for (auto const* l : links)
          vals.emplace_back(l->get_name(), sg_link_get_consumed_energy(l));
      printf("E %s %.17g", me.c_str(), sg4::Engine::get_clock());
      for (auto const& [n, v] : vals)
        printf(" %s=%.17g", n.c_str(), v);
      printf("\n");
    } else if (k == "exec" || k == "xstart") {
      auto* h      = sg4::Host::by_name(t[2]);
      double flops = std::stod(t[3]);
      double bound = std::stod(t[4]);
      double prio  = std::stod(t[5]);
      int threads  = std::stoi(t[6]);
      auto x       = sg4::Exec::init();
      x->set_name(t[1]);
      x->set_flops_amount(flops)->set_host(h);
      if (bound > 0)
        x->set_bound(bound);
      if (prio != 1.0)
        x->set_priority(prio);
      if (threads != 1)
        x->set_thread_count(threads);
      printf("XS %s %.17g %s\n", t[1].c_str(), sg4::Engine::get_clock(), h->get_cname());
      if (k == "xstart") {
        // asynchronous: a helper actor blocks on the activity so that the date of its end (or failure) is observed exactly
        x->start();
        execs[t[1]]   = x;
        std::string id = t[1];
        helpers[id]   = sg4::this_actor::get_host()->add_actor("wait_" + id, [id, x]() { wait_exec(id, x); });
      } else {
        const char* st = "ok";
        try {
          x->wait();
        } catch (const simgrid::HostFailureException&) {
          st = "hostfail";
        } catch (const simgrid::CancelException&) {
          st = "canceled";
        }
        printf("XE %s %.17g %s %.17g %.17g\n", t[1].c_str(), sg4::Engine::get_clock(), st, x->get_start_time(),
               x->get_finish_time());
      }
    } else if (k == "xwait" || k == "cwait") {
      helpers.at(t[1])->join();
    } else if (k == "xsuspend" || k == "xresume" || k == "xcancel" || k == "xmigrate") {
      auto x = execs.at(t[1]);
      printf("OP %s %.17g %s %s %s\n", me.c_str(), sg4::Engine::get_clock(), k.c_str(), t[1].c_str(),
             t.size() > 2 ? t[2].c_str() : "-");
      if (k == "xsuspend")
        x->suspend();
      else if (k == "xresume")
        x->resume();
      else if (k == "xcancel")
        x->cancel();
      else
        x->set_host(sg4::Host::by_name(t[2]));
    } else if (k == "comm" || k == "cstart") {
      auto* src = sg4::Host::by_name(t[2]);
      auto* dst = sg4::Host::by_name(t[3]);
      auto c    = sg4::Comm::sendto_init(src, dst);
      c->set_name(t[1]);
      c->set_payload_size(std::stoull(t[4]));
      printf("CS %s %.17g\n", t[1].c_str(), sg4::Engine::get_clock());
      if (k == "cstart") {
        c->start();
        comms[t[1]]   = c;
        std::string id = t[1];
        helpers[id]   = sg4::this_actor::get_host()->add_actor("wait_" + id, [id, c]() { wait_comm(id, c); });
      } else {
        const char* st = "ok";
        try {
          c->wait();
        } catch (const simgrid::NetworkFailureException&) {
          st = "netfail";
        }
        printf("CE %s %.17g %s %.17g %.17g\n", t[1].c_str(), sg4::Engine::get_clock(), st, c->get_start_time(),
               c->get_finish_time());
      }
    } else if (k == "pstate" || k == "off" || k == "on") {
      auto* h = sg4::Host::by_name(t[1]);
      printf("OP %s %.17g %s %s %s\n", me.c_str(), sg4::Engine::get_clock(), k.c_str(), t[1].c_str(),
             t.size() > 2 ? t[2].c_str() : "-");
      if (k == "pstate")
        h->set_pstate(std::stoul(t[2]));
      else if (k == "off")
        h->turn_off();
      else
        h->turn_on();
    } else if (k == "loff" || k == "lon") {
      auto* l = sg4::Link::by_name(t[1]);
      printf("OP %s %.17g %s %s -\n", me.c_str(), sg4::Engine::get_clock(), k.c_str(), t[1].c_str());
      if (k == "loff")
        l->turn_off();
      else
        l->turn_on();
    } else {
      printf("BADOP %s\n", k.c_str());
    }
  }
  printf("D %s %.17g\n", me.c_str(), sg4::Engine::get_clock());
}

static std::vector<std::string> split(const std::string& s, char sep)
{
  std::vector<std::string> out;
  std::istringstream is(s);
  std::string tok;
  while (std::getline(is, tok, sep))
    out.push_back(tok);
  return out;
}

static int run_scenario(int argc, char** argv)
{
  sg4::Engine e(&argc, argv);
  setvbuf(stdout, nullptr, _IOLBF, 0);
  bool trace_time = true;
  for (int i = 1; i < argc; i++)
    if (std::string(argv[i]) == "--no-time-trace")
      trace_time = false;
    else if (std::string(argv[i]) == "--no-load")
      with_load = false;
    else if (std::string(argv[i]) == "--avail-only-profiled")
      avail_only_profiled = true;

  std::vector<std::string> lines;
  std::string line;
  while (std::getline(std::cin, line))
    lines.push_back(line);

  // plugins first (they must be initialised before the platform exists)
  for (auto const& l : lines) {
    if (l == "plugin host_energy")
      sg_host_energy_plugin_init();
    if (l == "plugin link_energy") {
      sg_link_energy_plugin_init();
      with_link_energy = true;
    }
  }
  // signals first: the points at date 0 of an XML platform are applied while the platform is loaded
  sg4::Host::on_speed_change_cb([](sg4::Host const& h) {
    printf("CB %.17g hspeed %s %.17g %.17g %lu\n", sg4::Engine::get_clock(), h.get_cname(), h.get_speed(),
           h.get_available_speed(), h.get_pstate());
  });
  sg4::Host::on_onoff_cb(
      [](sg4::Host const& h) { printf("CB %.17g honoff %s %d\n", sg4::Engine::get_clock(), h.get_cname(), h.is_on() ? 1 : 0); });
  sg4::Link::on_bandwidth_change_cb(
      [](sg4::Link const& l) { printf("CB %.17g lbw %s %.17g\n", sg4::Engine::get_clock(), l.get_cname(), l.get_bandwidth()); });
  sg4::Link::on_onoff_cb(
      [](sg4::Link const& l) { printf("CB %.17g lonoff %s %d\n", sg4::Engine::get_clock(), l.get_cname(), l.is_on() ? 1 : 0); });
  sg4::Exec::on_start_cb(
      [](sg4::Exec const& x) { printf("AX start %s %.17g\n", x.get_cname(), sg4::Engine::get_clock()); });
  sg4::Exec::on_completion_cb(
      [](sg4::Exec const& x) { printf("AX end %s %.17g\n", x.get_cname(), sg4::Engine::get_clock()); });
  sg4::Comm::on_completion_cb(
      [](sg4::Comm const& c) { printf("AC end %s %.17g\n", c.get_cname(), sg4::Engine::get_clock()); });
  auto* zone = e.get_netzone_root();
  std::map<std::string, sg4::Host*> hmap;
  std::map<std::string, sg4::Link*> lmap;
  struct ActorSpec {
    std::string name, host;
    std::vector<Op> ops;
  };
  std::vector<ActorSpec> actors;
  struct Route {
    std::string a, b;
    std::vector<std::string> ls;
  };
  std::vector<Route> routes;
  int nprof     = 0;
  bool from_xml = false;
  std::vector<std::pair<sg4::Host*, unsigned long>> initial_pstates;
  for (size_t i = 0; i < lines.size(); i++) {
    std::istringstream is(lines[i]);
    std::vector<std::string> t;
    std::string tok;
    while (is >> tok)
      t.push_back(tok);
    if (t.empty() || t[0] == "plugin")
      continue;
    if (t[0] == "xml") {
      e.load_platform(t[1]);
      zone = e.get_netzone_root();
      from_xml = true;
      for (auto* h : e.get_all_hosts()) {
        hmap[h->get_name()] = h;
        hosts.push_back(h);
        if (h->get_property("wattage_per_state") != nullptr)
          ehosts.push_back(h);
      }
      for (auto* l : e.get_all_links())
        if (l->get_name() != "__loopback__") {
          lmap[l->get_name()] = l;
          links.push_back(l);
        }
    } else if (t[0] == "host") {
      std::vector<double> speeds;
      for (auto const& s : split(t[3], ','))
        speeds.push_back(std::stod(s));
      auto* h = zone->add_host(t[1], speeds);
      h->set_core_count(std::stoi(t[2]));
      bool energy = false;
      for (size_t j = 4; j < t.size(); j++) {
        auto kv = t[j].find('=');
        if (t[j].substr(0, kv) == "@pstate") { // initial pstate (the pstate attribute of the XML tag), applied once the platform is sealed
          initial_pstates.emplace_back(h, std::stoul(t[j].substr(kv + 1)));
          continue;
        }
        h->set_property(t[j].substr(0, kv), t[j].substr(kv + 1));
        if (t[j].substr(0, kv) == "wattage_per_state")
          energy = true;
      }
      hmap[t[1]] = h;
      hosts.push_back(h);
      if (energy)
        ehosts.push_back(h);
    } else if (t[0] == "link") {
      auto* l = zone->add_link(t[1], std::stod(t[2]));
      l->set_latency(std::stod(t[3]));
      l->set_sharing_policy(t[4] == "FATPIPE" ? sg4::Link::SharingPolicy::FATPIPE : sg4::Link::SharingPolicy::SHARED);
      for (size_t j = 5; j < t.size(); j++) {
        auto kv = t[j].find('=');
        l->set_property(t[j].substr(0, kv), t[j].substr(kv + 1));
      }
      lmap[t[1]] = l;
      links.push_back(l);
    } else if (t[0] == "route") {
      routes.push_back({t[1], t[2], split(t[3], ',')});
    } else if (t[0] == "profile") {
      simgrid::kernel::profile::Profile* p;
      if (t[3] == "file") {
        p = simgrid::kernel::profile::ProfileBuilder::from_file(t[4]);
      } else {
        std::string text;
        for (i++; i < lines.size() && lines[i] != "endprofile"; i++)
          text += lines[i] + "\n";
        p = simgrid::kernel::profile::ProfileBuilder::from_string("p" + std::to_string(nprof++) + "_" + t[2], text,
                                                                    std::stod(t[4]));
      }
      if (t[1] == "speed") {
        hmap.at(t[2])->set_speed_profile(p);
        speed_profiled.insert(t[2]);
      }
      else if (t[1] == "hstate")
        hmap.at(t[2])->set_state_profile(p);
      else if (t[1] == "bw")
        lmap.at(t[2])->set_bandwidth_profile(p);
      else if (t[1] == "lat")
        lmap.at(t[2])->set_latency_profile(p);
      else if (t[1] == "lstate")
        lmap.at(t[2])->set_state_profile(p);
    } else if (t[0] == "actor") {
      ActorSpec a{t[1], t[2], {}};
      for (i++; i < lines.size() && lines[i] != "endactor"; i++) {
        std::istringstream os(lines[i]);
        Op op;
        while (os >> tok)
          op.t.push_back(tok);
        if (not op.t.empty())
          a.ops.push_back(op);
      }
      actors.push_back(a);
    } else {
      printf("BADLINE %s\n", lines[i].c_str());
      return 3;
    }
  }
  if (not from_xml) {
    for (auto* l : links)
      l->seal();
    for (auto const& r : routes) {
      std::vector<const sg4::Link*> ls;
      for (auto const& n : r.ls)
        ls.push_back(lmap.at(n));
      zone->add_route(hmap.at(r.a), hmap.at(r.b), ls);
    }
    zone->seal();
    for (auto const& [h, ps] : initial_pstates)
      h->set_pstate(ps);
  }

  if (trace_time)
    sg4::Engine::on_time_advance_cb([](double) {
      printf("T %.17g", sg4::Engine::get_clock());
      print_state();
    });

  for (auto const& a : actors)
    hmap.at(a.host)->add_actor(a.name, [a]() { run_actor(a.name, a.ops); });

  printf("START");
  print_state();
  e.run();
  if (not ehosts.empty() || with_link_energy) {
    printf("EF %.17g", sg4::Engine::get_clock());
    for (auto const* h : ehosts)
      printf(" %s=%.17g", h->get_cname(), sg_host_get_consumed_energy(h));
    if (with_link_energy)
      for (auto const* l : links)
        printf(" %s=%.17g", l->get_cname(), sg_link_get_consumed_energy(l));
    printf("\n");
  }
  printf("END %.17g\n", sg4::Engine::get_clock());
  execs.clear();
  comms.clear();
  helpers.clear();
  return 0;
}

// Batch mode: `avail --batch DIR N` runs the cases DIR/0 .. DIR/N-1 one after the other, each in a forked child (one Engine per
// process) whose cwd is the case directory, stdin <- stdin.txt, stdout -> out.txt, stderr -> err.txt, arguments <- args.txt (one per
// line); the wait status is written to DIR/i/status.txt ("exit RC" | "signal N" | "timeout"). Starting a process costs ~1 s through the
// framework's runner on a loaded machine: batching keeps the checks affordable.
#include <fstream>
#include <sys/wait.h>
#include <unistd.h>
int main(int argc, char** argv)
{
  if (argc < 4 || std::string(argv[1]) != "--batch")
    return run_scenario(argc, argv);
  std::string dir = argv[2];
  int n           = std::stoi(argv[3]);
  int budget      = argc > 4 ? std::stoi(argv[4]) : 120;
  for (int i = 0; i < n; i++) {
    std::string cd = dir + "/" + std::to_string(i);
    pid_t pid      = fork();
    if (pid == 0) {
      if (chdir(cd.c_str()) != 0 || not freopen("stdin.txt", "r", stdin) || not freopen("out.txt", "w", stdout) ||
          not freopen("err.txt", "w", stderr))
        _exit(97);
      setvbuf(stderr, nullptr, _IONBF, 0); // a reopened stderr is fully buffered: keep what is written before an abort
      std::vector<std::string> args{argv[0]};
      std::ifstream af("args.txt");
      std::string a;
      while (std::getline(af, a))
        if (not a.empty())
          args.push_back(a);
      std::vector<char*> av;
      for (auto& x : args)
        av.push_back(x.data());
      av.push_back(nullptr);
      alarm(budget); // wall-clock watchdog of this case only (reported as a timeout, i.e. inconclusive)
      int rc = run_scenario(static_cast<int>(args.size()), av.data());
      fflush(stdout);
      fflush(stderr);
      _exit(rc);
    }
    int st = 0;
    waitpid(pid, &st, 0);
    std::ofstream sf(cd + "/status.txt");
    if (WIFEXITED(st))
      sf << "exit " << WEXITSTATUS(st) << "\n";
    else if (WIFSIGNALED(st) && WTERMSIG(st) == SIGALRM)
      sf << "timeout\n";
    else if (WIFSIGNALED(st))
      sf << "signal " << WTERMSIG(st) << "\n";
  }
  return 0;
}
