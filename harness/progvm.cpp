// General S4U "program VM" shared by C01 (reproducibility) and C02 (independence of the context factory / worker threads).
// It reads a generated scenario (platform + synchronisation objects + scripts + initial actors), interprets the scripts on the
// real S4U API and logs every event seen at the actor boundary, one line per event, written with a single stdio call
// (line-buffered stdout, so the history survives an abort and lines of actors running in parallel never mix):
//
//   <date %.17g> <actor name> <op index> <phase> <op> <values...>
//
//   phase Q: just before the API call (values = arguments)      R: right after it returned (values = results)
//         X: the call threw (values = exception class)          S: op skipped by the VM to respect the API contract
//         B: body starts   Z: body returns   E: on_exit callback (value = failed)      F: failed activity extracted from a set
//   maestro lines use the actor name "-":  C <actor> <pid> <host> (Actor::on_creation), T <actor> (on_termination), DL, END
// Actors are identified by *names* (initial: as given; created: "<parent>.<k>"), never by addresses. pids are logged as values
// where the API exposes them. Dates are in seconds; script durations are multiples of UNIT = 2^-10 s so that dates tie exactly.
//
// The actors of a scenario share no unsynchronised memory: every table below is filled before Engine::run() and read-only
// afterwards; the per-actor interpreter state (slots, children, held mutexes) lives on the actor's own stack; everything shared
// goes through SimGrid objects.
//
// Scenario text:
//   H <name> <cores> <speed>            host                      L <name> <bw> <lat> <S|F>   link
//   R <src> <dst> <n> <link>...         symmetric route           D <host> <name> <rbw> <wbw> disk
//   X                                   end of platform
//   O mutex <n> | O sem <cap>... | O cv <n> | O bar <size>... | O mbox <n> | O mq <n>
//   S <id>                              starts script <id>; following lines are its ops:  <op> <args...>
//   A <name> <host> <script> <daemon 0|1> <killtime units|-1> <onexit 0|1>      initial actor (created in this order)
// Ops: see run_op().  Targets: a<i> = i-th initial actor, c<k> = k-th actor created by this one.
//
// Heap perturbation (C01): argument <padseed> != 0 makes the process allocate and free a seeded random pattern of blocks before
// the Engine exists and between the creations of the objects/initial actors, so that the *address order* of kernel objects is a
// different permutation of their creation order in every run. It never touches the simulated program.
//
// Batch mode: stdin = sequence of "CASE <tag> <padseed> <engine flags...>" / scenario / "ENDCASE"; every case runs in a forked
// child (one Engine per process); the parent prints "CASE <tag>" before and "DONE <tag> <exit code|-1> <signal|0>" after it, on
// stdout and on stderr. PROGVM_BUDGET = wall-clock seconds allowed per case (SIGALRM = inconclusive for the checker).
#include <simgrid/Exception.hpp>
#include <simgrid/s4u.hpp>
#include <cstdarg>
#include <cstdio>
#include <cstdlib>
#include <iostream>
#include <map>
#include <sstream>
#include <string>
#include <sys/wait.h>
#include <unistd.h>
#include <vector>
namespace sg4 = simgrid::s4u;
extern bool do_install_signal_handlers;

static const double UNIT = 1.0 / 1024;

struct Op {
  std::string n;
  std::vector<std::string> a;
  double num(size_t i, double dflt = -1) const { return i < a.size() ? std::stod(a[i]) : dflt; }
  int idx(size_t i) const { return std::stoi(a.at(i)); }
};
struct ActorSpec {
  std::string name;
  int host, script, daemon;
  double killtime;
  int onexit;
};
struct World {
  std::vector<sg4::Host*> hosts;
  std::map<std::string, sg4::Host*> host_by_name;
  std::map<std::string, sg4::Link*> links;
  std::vector<sg4::Disk*> disks;
  std::vector<sg4::MutexPtr> mutexes;
  std::vector<sg4::SemaphorePtr> sems;
  std::vector<sg4::ConditionVariablePtr> cvs;
  std::vector<sg4::MutexPtr> cvm;
  std::vector<sg4::BarrierPtr> bars;
  std::vector<sg4::Mailbox*> mboxes;
  std::vector<sg4::MessageQueue*> mqs;
  std::vector<std::vector<Op>> scripts;
  std::vector<ActorSpec> specs;
  std::vector<sg4::ActorPtr> initial;
};
static World* W = nullptr;

static double now()
{
  return sg4::Engine::get_clock();
}
static void out(const char* fmt, ...) __attribute__((format(printf, 1, 2)));
static void out(const char* fmt, ...)
{
  char buf[1536];
  va_list ap;
  va_start(ap, fmt);
  int n = vsnprintf(buf, sizeof buf - 1, fmt, ap);
  va_end(ap);
  if (n < 0)
    return;
  if (n > (int)sizeof buf - 2)
    n = sizeof buf - 2;
  buf[n] = '\n';
  fwrite(buf, 1, n + 1, stdout); // one locked stdio call per line
}

// ---- heap perturbation -------------------------------------------------------------------------------------------------------
static unsigned long long pad_state = 0;
static std::vector<void*> pad_live;
static unsigned long long prnd()
{
  pad_state ^= pad_state << 13;
  pad_state ^= pad_state >> 7;
  pad_state ^= pad_state << 17;
  return pad_state;
}
static void pad_step(int n)
{
  if (pad_state == 0)
    return;
  for (int i = 0; i < n; i++) {
    if (pad_live.size() > 8 && prnd() % 5 < 2) {
      size_t k = prnd() % pad_live.size();
      free(pad_live[k]);
      pad_live[k] = pad_live.back();
      pad_live.pop_back();
    } else {
      pad_live.push_back(malloc(16 + 16 * (prnd() % 96)));
    }
  }
}
static void pad_prologue(unsigned long long seed)
{
  if (seed == 0)
    return;
  pad_state = seed * 0x9E3779B97F4A7C15ULL + 0x1234567;
  prnd();
  size_t n = 1500 + prnd() % 3000;
  std::vector<void*> blk;
  for (size_t i = 0; i < n; i++)
    blk.push_back(malloc(16 + 16 * (prnd() % 96))); // 16..1536 bytes: the sizes of actors, activities, simcall observers...
  // free a random two thirds in random order: bins hand these holes back in an order unrelated to their addresses
  for (size_t i = n - 1; i > 0; i--)
    std::swap(blk[i], blk[prnd() % (i + 1)]);
  for (size_t i = 0; i < n; i++)
    if (i % 3 != 0)
      free(blk[i]);
    else
      pad_live.push_back(blk[i]);
}

// ---- interpreter -------------------------------------------------------------------------------------------------------------
struct Slot {
  sg4::ActivityPtr act;
  std::string** dst = nullptr; // receive slots: where the payload pointer lands (heap, never freed: the kernel may write late)
  char kind         = '?';     // e exec, i io, p put, g get, P mq put, G mq get
};
struct VM {
  std::string name;
  int script = 0;
  // The handles of the pending asynchronous activities live on the heap and survive the actor (they are never freed), unless the
  // script says "scoped": then they are destroyed when the actor's stack is unwound, as the locals of a hand-written actor are.
  std::map<int, Slot>& slots = *new std::map<int, Slot>;
  bool scoped                = false;
  std::vector<sg4::ActorPtr> children;
  std::map<int, int> held; // mutex index -> 1 while this actor owns it
  long nsent = 0;
};

static const char* exname(const simgrid::Exception& e)
{
  if (dynamic_cast<const simgrid::TimeoutException*>(&e))
    return "Timeout";
  if (dynamic_cast<const simgrid::NetworkFailureException*>(&e))
    return "NetworkFailure";
  if (dynamic_cast<const simgrid::HostFailureException*>(&e))
    return "HostFailure";
  if (dynamic_cast<const simgrid::StorageFailureException*>(&e))
    return "StorageFailure";
  if (dynamic_cast<const simgrid::CancelException*>(&e))
    return "Cancel";
  return "Exception";
}

static std::string joined(const Op& op)
{
  std::string s;
  for (auto const& x : op.a)
    s += " " + x;
  return s;
}

static double tmo(const Op& op, size_t i)
{
  if (i >= op.a.size())
    return -1.0;
  if (op.a[i] == "t")
    return 1e-12; // below the timing precision
  double k = std::stod(op.a[i]);
  return k < 0 ? -1.0 : k * UNIT;
}

static sg4::ActorPtr target(VM& vm, const std::string& t)
{
  size_t k = std::stoul(t.substr(1));
  if (t[0] == 'a')
    return k < W->initial.size() ? W->initial[k] : nullptr;
  return k < vm.children.size() ? vm.children[k] : nullptr;
}

// values describing a completed activity (and release of the received payload)
static std::string completed(Slot& s)
{
  char buf[200];
  std::string r;
  if (s.kind == 'e' || s.kind == 'i') {
    snprintf(buf, sizeof buf, " st=%.17g ft=%.17g", s.act->get_start_time(), s.act->get_finish_time());
    r = buf;
  }
  if (s.dst != nullptr) {
    if (*s.dst != nullptr) {
      r += " msg=" + **s.dst;
      delete *s.dst;
      *s.dst = nullptr;
    } else
      r += " msg=-";
  }
  return r;
}

static void body(const std::string& name, int script);

static void run_op(VM& vm, size_t i, const Op& op)
{
  const char* me       = vm.name.c_str();
  const std::string& n = op.n;
  const char* on       = n.c_str();
  auto Q               = [&]() { out("%.17g %s %zu Q %s%s", now(), me, i, on, joined(op).c_str()); };
  auto R               = [&](const std::string& v) { out("%.17g %s %zu R %s%s", now(), me, i, on, v.c_str()); };
  auto S               = [&](const char* why) { out("%.17g %s %zu S %s %s", now(), me, i, on, why); };
  auto payload         = [&]() { return new std::string(vm.name + "/" + std::to_string(i) + "/" + std::to_string(vm.nsent++)); };
  auto host_of         = [&](int h) { return h < 0 ? sg4::this_actor::get_host() : W->hosts.at(h); };
  auto live_slot       = [&](int s) -> Slot* {
    auto it = vm.slots.find(s);
    return it == vm.slots.end() || it->second.act == nullptr ? nullptr : &it->second;
  };
  auto free_slot = [&](int s) { return live_slot(s) == nullptr; };

  if (n == "scoped") {
    vm.scoped = true;
    R("");
  } else if (n == "sleep") {
    Q();
    sg4::this_actor::sleep_for(op.num(0) * UNIT);
    R("");
  } else if (n == "sleepu") {
    Q();
    sg4::this_actor::sleep_until(op.num(0) * UNIT);
    R("");
  } else if (n == "yield") {
    Q();
    sg4::this_actor::yield();
    R("");
  } else if (n == "exec") { // exec <flops> <host|-1>
    Q();
    sg4::ExecPtr x = sg4::Exec::init()->set_host(host_of(op.idx(1)))->set_flops_amount(op.num(0));
    x->start();
    x->wait();
    char buf[100];
    snprintf(buf, sizeof buf, " st=%.17g ft=%.17g", x->get_start_time(), x->get_finish_time());
    R(buf);
  } else if (n == "execa") { // execa <slot> <flops> <host|-1> [bound] [priority]
    if (not free_slot(op.idx(0)))
      return S("slot-busy");
    Q();
    sg4::ExecPtr x = sg4::Exec::init()->set_host(host_of(op.idx(2)))->set_flops_amount(op.num(1));
    if (op.num(3) > 0)
      x->set_bound(op.num(3));
    if (op.num(4) > 0)
      x->set_priority(op.num(4));
    x->start();
    vm.slots[op.idx(0)] = Slot{x, nullptr, 'e'};
    R("");
  } else if (n == "put") { // put <mbox> <bytes> [timeout]
    Q();
    auto* p = payload();
    if (op.a.size() > 2 && op.a[2] != "-1")
      W->mboxes.at(op.idx(0))->put(p, (uint64_t)op.num(1), tmo(op, 2));
    else
      W->mboxes.at(op.idx(0))->put(p, (uint64_t)op.num(1));
    R("");
  } else if (n == "get") { // get <mbox> [timeout]
    Q();
    std::string* p = (op.a.size() > 1 && op.a[1] != "-1") ? W->mboxes.at(op.idx(0))->get<std::string>(tmo(op, 1))
                                                          : W->mboxes.at(op.idx(0))->get<std::string>();
    R(" msg=" + (p ? *p : std::string("-")));
    delete p;
  } else if (n == "puta") { // puta <slot> <mbox> <bytes>
    if (not free_slot(op.idx(0)))
      return S("slot-busy");
    Q();
    vm.slots[op.idx(0)] = Slot{W->mboxes.at(op.idx(1))->put_async(payload(), (uint64_t)op.num(2)), nullptr, 'p'};
    R("");
  } else if (n == "geta") { // geta <slot> <mbox>
    if (not free_slot(op.idx(0)))
      return S("slot-busy");
    Q();
    auto** dst          = new std::string*(nullptr);
    vm.slots[op.idx(0)] = Slot{W->mboxes.at(op.idx(1))->get_async<std::string>(dst), dst, 'g'};
    R("");
  } else if (n == "putd") { // putd <mbox> <bytes>
    Q();
    W->mboxes.at(op.idx(0))->put_init(payload(), (uint64_t)op.num(1))->detach();
    R("");
  } else if (n == "mqput") { // mqput <q> [timeout]
    Q();
    auto* p = payload();
    if (op.a.size() > 1 && op.a[1] != "-1")
      W->mqs.at(op.idx(0))->put(p, tmo(op, 1));
    else
      W->mqs.at(op.idx(0))->put(p);
    R("");
  } else if (n == "mqget") { // mqget <q> [timeout]
    Q();
    std::string* p = (op.a.size() > 1 && op.a[1] != "-1") ? W->mqs.at(op.idx(0))->get<std::string>(tmo(op, 1))
                                                          : W->mqs.at(op.idx(0))->get<std::string>();
    R(" msg=" + (p ? *p : std::string("-")));
    delete p;
  } else if (n == "mqputa") { // mqputa <slot> <q>
    if (not free_slot(op.idx(0)))
      return S("slot-busy");
    Q();
    vm.slots[op.idx(0)] = Slot{W->mqs.at(op.idx(1))->put_async(payload()), nullptr, 'P'};
    R("");
  } else if (n == "mqgeta") { // mqgeta <slot> <q>
    if (not free_slot(op.idx(0)))
      return S("slot-busy");
    Q();
    auto** dst          = new std::string*(nullptr);
    vm.slots[op.idx(0)] = Slot{W->mqs.at(op.idx(1))->get_async<std::string>(dst), dst, 'G'};
    R("");
  } else if (n == "io") { // io <disk> <R|W> <bytes>
    Q();
    sg4::IoPtr x = W->disks.at(op.idx(0))->io_init((sg_size_t)op.num(2), op.a[1] == "R" ? sg4::Io::OpType::READ : sg4::Io::OpType::WRITE);
    x->start();
    x->wait();
    char buf[100];
    snprintf(buf, sizeof buf, " st=%.17g ft=%.17g", x->get_start_time(), x->get_finish_time());
    R(buf);
  } else if (n == "ioa") { // ioa <slot> <disk> <R|W> <bytes>
    if (not free_slot(op.idx(0)))
      return S("slot-busy");
    Q();
    sg4::IoPtr x = W->disks.at(op.idx(1))->io_init((sg_size_t)op.num(3), op.a[2] == "R" ? sg4::Io::OpType::READ : sg4::Io::OpType::WRITE);
    x->start();
    vm.slots[op.idx(0)] = Slot{x, nullptr, 'i'};
    R("");
  } else if (n == "wait") { // wait <slot> [timeout]
    Slot* s = live_slot(op.idx(0));
    if (s == nullptr)
      return S("no-activity");
    Q();
    Slot mine = *s; // whatever happens the slot is released: a failed or timed out activity is not used again
    vm.slots.erase(op.idx(0));
    mine.act->wait_for(tmo(op, 1));
    R(completed(mine));
  } else if (n == "test") { // test <slot>
    Slot* s = live_slot(op.idx(0));
    if (s == nullptr)
      return S("no-activity");
    Q();
    Slot mine = *s;
    vm.slots.erase(op.idx(0));
    bool done = mine.act->test();
    if (done)
      R(" 1" + completed(mine));
    else {
      vm.slots[op.idx(0)] = mine;
      R(" 0");
    }
  } else if (n == "cancel") { // cancel <slot>
    Slot* s = live_slot(op.idx(0));
    if (s == nullptr)
      return S("no-activity");
    Q();
    Slot mine = *s;
    vm.slots.erase(op.idx(0));
    mine.act->cancel();
    R("");
  } else if (n == "waitany" || n == "testany" || n == "waitall") { // waitany <timeout|-1> <slot>... ; testany <slot>... ; waitall <slot>...
    size_t first = n == "waitany" ? 1 : 0;
    std::vector<int> ids;
    sg4::ActivitySet set;
    for (size_t k = first; k < op.a.size(); k++)
      if (Slot* s = live_slot(op.idx(k))) {
        ids.push_back(op.idx(k));
        set.push(s->act);
      }
    if (ids.empty())
      return S("no-activity");
    Q();
    auto slot_of = [&](const sg4::ActivityPtr& a) {
      for (int id : ids)
        if (vm.slots[id].act == a)
          return id;
      return -1;
    };
    try {
      if (n == "waitall") {
        set.wait_all();
        std::string r;
        for (int id : ids) {
          r += " " + std::to_string(id) + completed(vm.slots[id]);
          vm.slots.erase(id);
        }
        R(r);
      } else {
        sg4::ActivityPtr a = n == "waitany" ? set.wait_any_for(tmo(op, 0)) : set.test_any();
        if (a == nullptr)
          R(" none");
        else {
          int id = slot_of(a);
          R(" " + std::to_string(id) + completed(vm.slots[id]));
          vm.slots.erase(id);
        }
      }
    } catch (const simgrid::TimeoutException&) {
      throw; // nothing failed, the slots stay usable
    } catch (const simgrid::Exception&) {
      // the failed activities are reported in the order in which the set hands them out, then dropped
      while (sg4::ActivityPtr f = set.get_failed_activity()) {
        int id = slot_of(f);
        out("%.17g %s %zu F %s %d", now(), me, i, on, id);
        vm.slots.erase(id);
      }
      if (n == "waitall") // the state of the other members is unknown: drop them all
        for (int id : ids)
          vm.slots.erase(id);
      throw;
    }
  } else if (n == "lock") {
    if (vm.held[op.idx(0)])
      return S("held");
    Q();
    W->mutexes.at(op.idx(0))->lock();
    vm.held[op.idx(0)] = 1;
    R("");
  } else if (n == "trylock") {
    if (vm.held[op.idx(0)])
      return S("held");
    Q();
    bool ok            = W->mutexes.at(op.idx(0))->try_lock();
    vm.held[op.idx(0)] = ok;
    R(ok ? " 1" : " 0");
  } else if (n == "unlock") {
    if (not vm.held[op.idx(0)])
      return S("not-held");
    Q();
    vm.held[op.idx(0)] = 0;
    W->mutexes.at(op.idx(0))->unlock();
    R("");
  } else if (n == "acq") { // acq <sem> [timeout]
    Q();
    if (op.a.size() > 1 && op.a[1] != "-1")
      R(W->sems.at(op.idx(0))->acquire_timeout(tmo(op, 1)) ? " timeout" : " ok");
    else {
      W->sems.at(op.idx(0))->acquire();
      R(" ok");
    }
  } else if (n == "rel") {
    Q();
    W->sems.at(op.idx(0))->release();
    R("");
  } else if (n == "cap") {
    R(" " + std::to_string(W->sems.at(op.idx(0))->get_capacity()) + (W->sems.at(op.idx(0))->would_block() ? " wb" : " free"));
  } else if (n == "cvwait") { // cvwait <cv> [timeout]   (lock the cv's own mutex, wait, unlock)
    Q();
    auto& m = W->cvm.at(op.idx(0));
    m->lock();
    out("%.17g %s %zu L %s", now(), me, i, on);
    std::string r = " notified";
    try {
      if (op.a.size() > 1 && op.a[1] != "-1")
        r = W->cvs.at(op.idx(0))->wait_for(m, tmo(op, 1)) == std::cv_status::timeout ? " timeout" : " notified";
      else
        W->cvs.at(op.idx(0))->wait(m);
    } catch (const simgrid::Exception&) {
      m->unlock();
      throw;
    }
    out("%.17g %s %zu W %s%s", now(), me, i, on, r.c_str());
    m->unlock();
    R(r);
  } else if (n == "notify") {
    Q();
    W->cvs.at(op.idx(0))->notify_one();
    R("");
  } else if (n == "notifyall") {
    Q();
    W->cvs.at(op.idx(0))->notify_all();
    R("");
  } else if (n == "bar") {
    Q();
    int r = W->bars.at(op.idx(0))->wait();
    R(" " + std::to_string(r));
  } else if (n == "create") { // create <script> <host> <daemon>
    Q();
    std::string cname = vm.name + "." + std::to_string(vm.children.size());
    int cscript       = op.idx(0);
    int daemon        = op.idx(2);
    sg4::ActorPtr c   = W->hosts.at(op.idx(1))->add_actor(cname, [cname, cscript, daemon]() {
      if (daemon)
        sg4::Actor::self()->daemonize();
      body(cname, cscript);
    });
    vm.children.push_back(c);
    R(" " + cname + " pid=" + std::to_string(c->get_pid()));
  } else if (n == "kill" || n == "join" || n == "suspend" || n == "resume") {
    sg4::ActorPtr t = target(vm, op.a.at(0));
    if (t == nullptr || t.get() == sg4::Actor::self())
      return S("no-target");
    out("%.17g %s %zu Q %s %s", now(), me, i, on, t->get_cname());
    if (n == "kill")
      t->kill();
    else if (n == "join") {
      if (op.a.size() > 1 && op.a[1] != "-1")
        t->join(tmo(op, 1));
      else
        t->join();
    } else if (n == "suspend")
      t->suspend();
    else
      t->resume();
    R(std::string(" ") + t->get_cname() + (t->is_suspended() ? " susp" : " run"));
  } else if (n == "killall") {
    Q();
    sg4::Actor::kill_all();
    R("");
  } else if (n == "suspendself") {
    Q();
    sg4::this_actor::suspend();
    R("");
  } else if (n == "exit") {
    Q();
    sg4::this_actor::exit();
  } else {
    fprintf(stderr, "progvm: unknown op '%s'\n", on);
    abort();
  }
}

struct ScopeGuard {
  VM& vm;
  ~ScopeGuard()
  {
    if (vm.scoped)
      delete &vm.slots;
  }
};

static void body(const std::string& name0, int script)
{
  VM vm;
  vm.name   = name0;
  vm.script = script;
  ScopeGuard guard{vm};
  const char* me = vm.name.c_str();
  std::string name = vm.name;
  sg4::this_actor::on_exit([name](bool failed) { out("%.17g %s -1 E %d", now(), name.c_str(), failed ? 1 : 0); });
  out("%.17g %s -1 B pid=%ld host=%s daemon=%d", now(), me, (long)sg4::this_actor::get_pid(), sg4::this_actor::get_host()->get_cname(),
      sg4::Actor::self()->is_daemon() ? 1 : 0);
  const auto& ops = W->scripts.at(vm.script);
  for (size_t i = 0; i < ops.size(); i++) {
    try {
      run_op(vm, i, ops[i]);
    } catch (const simgrid::Exception& e) {
      out("%.17g %s %zu X %s %s", now(), me, i, ops[i].n.c_str(), exname(e));
    }
  }
  // leave nothing locked behind (a mutex must be released by its owner)
  for (auto const& [m, h] : vm.held)
    if (h)
      W->mutexes.at(m)->unlock();
  out("%.17g %s -1 Z", now(), me);
}

// ---- scenario ----------------------------------------------------------------------------------------------------------------
static int run_case(std::vector<std::string> args, unsigned long long padseed, const std::string& text)
{
  pad_prologue(padseed);
  std::vector<char*> argv;
  for (auto& a : args)
    argv.push_back(a.data());
  argv.push_back(nullptr);
  int argc = (int)args.size();
  do_install_signal_handlers = getenv("PROGVM_SIGHANDLER") != nullptr; // plain builds: SimGrid's handler prints where it crashed
  // Engine and tables are never destroyed: after a (legitimate) deadlock the kernel objects still have blocked acquisitions,
  // which their destructors refuse; the process exits right after the END line anyway.
  auto& e     = *new sg4::Engine(&argc, argv.data());
  auto& world = *new World;
  W           = &world;
  auto* zone  = e.get_netzone_root()->add_netzone_full("z");
  std::istringstream in(text);
  std::string line;
  int cur = -1;
  while (std::getline(in, line)) {
    std::istringstream is(line);
    std::string k;
    if (not(is >> k))
      continue;
    if (cur >= 0 && k != "S" && k != "A") {
      Op op;
      op.n = k;
      std::string t;
      while (is >> t)
        op.a.push_back(t);
      world.scripts[cur].push_back(op);
      continue;
    }
    pad_step(6);
    if (k == "H") {
      std::string name;
      int cores;
      double speed;
      is >> name >> cores >> speed;
      auto* h = zone->add_host(name, speed)->set_core_count(cores);
      world.hosts.push_back(h);
      world.host_by_name[name] = h;
    } else if (k == "L") {
      std::string name, pol;
      double bw, lat;
      is >> name >> bw >> lat >> pol;
      auto* l = zone->add_link(name, bw)->set_latency(lat);
      if (pol == "F")
        l->set_sharing_policy(sg4::Link::SharingPolicy::FATPIPE);
      world.links[name] = l;
    } else if (k == "R") {
      std::string s, d, ln;
      int n;
      is >> s >> d >> n;
      std::vector<sg4::LinkInRoute> r;
      for (int j = 0; j < n; j++) {
        is >> ln;
        r.emplace_back(world.links.at(ln));
      }
      zone->add_route(world.host_by_name.at(s), world.host_by_name.at(d), r, true);
    } else if (k == "D") {
      std::string h, name;
      double r, w;
      is >> h >> name >> r >> w;
      world.disks.push_back(world.host_by_name.at(h)->add_disk(name, r, w));
    } else if (k == "X") {
      zone->seal();
    } else if (k == "O") {
      std::string what;
      is >> what;
      std::vector<int> v;
      int x;
      while (is >> x)
        v.push_back(x);
      if (what == "sem")
        for (int c : v) {
          pad_step(3);
          world.sems.push_back(sg4::Semaphore::create(c));
        }
      else if (what == "bar")
        for (int c : v) {
          pad_step(3);
          world.bars.push_back(sg4::Barrier::create(c));
        }
      else
        for (int j = 0; j < v.at(0); j++) {
          pad_step(3);
          if (what == "mutex")
            world.mutexes.push_back(sg4::Mutex::create());
          else if (what == "cv") {
            world.cvs.push_back(sg4::ConditionVariable::create());
            world.cvm.push_back(sg4::Mutex::create());
          } else if (what == "mbox")
            world.mboxes.push_back(sg4::Mailbox::by_name("mb" + std::to_string(j)));
          else if (what == "mq")
            world.mqs.push_back(sg4::MessageQueue::by_name("mq" + std::to_string(j)));
          else {
            fprintf(stderr, "progvm: unknown object kind %s\n", what.c_str());
            return 3;
          }
        }
    } else if (k == "S") {
      is >> cur;
      if ((int)world.scripts.size() <= cur)
        world.scripts.resize(cur + 1);
    } else if (k == "A") {
      ActorSpec s;
      is >> s.name >> s.host >> s.script >> s.daemon >> s.killtime >> s.onexit;
      world.specs.push_back(s);
      cur = -1;
    } else {
      fprintf(stderr, "progvm: bad line '%s'\n", line.c_str());
      return 3;
    }
  }

  sg4::Actor::on_creation_cb([](sg4::Actor& a) { out("%.17g - -1 C %s pid=%ld host=%s", now(), a.get_cname(), (long)a.get_pid(), a.get_host()->get_cname()); });
  sg4::Actor::on_termination_cb([](sg4::Actor const& a) { out("%.17g - -1 T %s", now(), a.get_cname()); });
  sg4::Engine::on_deadlock_cb([]() { out("%.17g - -1 DL", now()); });

  for (auto const& s : world.specs) {
    pad_step(8);
    std::string aname = s.name;
    int ascript       = s.script;
    sg4::ActorPtr a   = world.hosts.at(s.host)->add_actor(s.name, [aname, ascript]() { body(aname, ascript); });
    if (s.daemon)
      a->daemonize();
    if (s.killtime >= 0)
      a->set_kill_time(s.killtime * UNIT);
    world.initial.push_back(a);
  }
  e.run();
  out("%.17g - -1 END", now());
  fflush(stdout);
  return 0;
}

int main(int argc, char** argv)
{
  setvbuf(stdout, nullptr, _IOLBF, 0);
  std::vector<std::string> base(argv, argv + argc);
  std::vector<std::string> lines;
  std::string line;
  while (std::getline(std::cin, line))
    if (not line.empty())
      lines.push_back(line);
  long budget = getenv("PROGVM_BUDGET") ? atol(getenv("PROGVM_BUDGET")) : 300;
  if (lines.empty() || lines[0].rfind("CASE", 0) != 0) {
    fprintf(stderr, "progvm: expected CASE <tag> <padseed> <flags...>\n");
    return 3;
  }
  for (size_t i = 0; i < lines.size();) {
    std::istringstream is(lines[i++]);
    std::string k, tag, f;
    unsigned long long padseed = 0;
    is >> k >> tag >> padseed;
    std::vector<std::string> args = base;
    while (is >> f)
      args.push_back(f);
    std::string text;
    while (i < lines.size() && lines[i] != "ENDCASE")
      text += lines[i++] + "\n";
    i++;
    printf("CASE %s\n", tag.c_str());
    fprintf(stderr, "CASE %s\n", tag.c_str());
    fflush(stdout);
    fflush(stderr);
    pid_t pid = fork();
    if (pid < 0) {
      perror("fork");
      return 3;
    }
    if (pid == 0) {
      alarm((unsigned)budget);
      int rc = run_case(args, padseed, text);
      fflush(stdout);
      fflush(stderr);
      exit(rc); // through exit(): the sanitizer runtimes set their exit code there
    }
    int st = 0;
    waitpid(pid, &st, 0);
    printf("DONE %s %d %d\n", tag.c_str(), WIFEXITED(st) ? WEXITSTATUS(st) : -1, WIFSIGNALED(st) ? WTERMSIG(st) : 0);
    fprintf(stderr, "DONE %s\n", tag.c_str());
    fflush(stdout);
    fflush(stderr);
  }
  return 0;
}
