// E4 harness for C45: draws from the real simgrid::xbt::random generator.
// stdin: "I seed n min max" | "R seed n min max(hex doubles)"; stdout: one line per request "I v1 v2 ..." / "R %a ..."
#include "xbt/random.hpp"
#include <cstdio>
#include <iostream>
#include <string>
int main()
{
  std::string k;
  simgrid::xbt::random::set_implem_xbt();
  while (std::cin >> k) {
    long seed, n;
    std::cin >> seed >> n;
    simgrid::xbt::random::set_mersenne_seed((int)seed);
    if (k == "I") {
      long mn, mx;
      std::cin >> mn >> mx;
      printf("I");
      for (long i = 0; i < n; i++)
        printf(" %d", simgrid::xbt::random::uniform_int((int)mn, (int)mx));
      printf("\n");
    } else {
      std::string a, b;
      std::cin >> a >> b;
      double mn = strtod(a.c_str(), nullptr), mx = strtod(b.c_str(), nullptr);
      printf("R");
      for (long i = 0; i < n; i++)
        printf(" %a", simgrid::xbt::random::uniform_real(mn, mx));
      printf("\n");
    }
  }
  return 0;
}
