// E1-style harness for C04: actors execute scripted lock/try_lock/unlock/sleep sequences on ONE s4u::Mutex; every call is
// recorded at the actor boundary: "Q <actor> <op>" just before the call, "A <actor> <op> <result> <clock>" after it returns.
// stdin: first line "<recursive 0|1>", then one line per actor: tokens L | T | U | S<milliseconds>
// An actor tracks its own hold depth from the answers it got, never unlocks what it does not hold, and releases everything at the end.
#include <simgrid/s4u.hpp>
#include <cstdio>
#include <iostream>
#include <sstream>
#include <vector>
namespace sg4 = simgrid::s4u;
int main(int argc, char** argv)
{
  sg4::Engine e(&argc, argv);
  setvbuf(stdout, nullptr, _IOLBF, 0); // the history must survive an abort of the kernel
  e.load_platform(argv[1]);
  int recursive;
  std::string line;
  std::getline(std::cin, line);
  recursive = std::stoi(line);
  std::vector<std::vector<std::string>> scripts;
  while (std::getline(std::cin, line)) {
    std::istringstream is(line);
    std::vector<std::string> ops;
    std::string t;
    while (is >> t)
      ops.push_back(t);
    if (not ops.empty())
      scripts.push_back(ops);
  }
  auto mutex = recursive ? sg4::Mutex::create(true) : sg4::Mutex::create();
  auto hosts = e.get_all_hosts();
  for (size_t a = 0; a < scripts.size(); a++) {
    hosts[a % hosts.size()]->add_actor("a" + std::to_string(a), [a, mutex, recursive, ops = scripts[a]]() {
      int depth = 0;
      for (auto const& op : ops) {
        if (op == "L") {
          if (depth > 0 && not recursive)
            continue; // would self-deadlock: outside the API contract
          printf("Q %zu L\n", a);
          mutex->lock();
          depth++;
          printf("A %zu L 1 %.9g\n", a, sg4::Engine::get_clock());
        } else if (op == "T") {
          printf("Q %zu T\n", a);
          bool ok = mutex->try_lock();
          if (ok)
            depth++;
          printf("A %zu T %d %.9g\n", a, ok ? 1 : 0, sg4::Engine::get_clock());
        } else if (op == "U") {
          if (depth == 0)
            continue;
          printf("Q %zu U\n", a);
          mutex->unlock();
          depth--;
          printf("A %zu U 1 %.9g\n", a, sg4::Engine::get_clock());
        } else if (op[0] == 'S') {
          sg4::this_actor::sleep_for(std::stod(op.substr(1)) / 1000.0);
        } else if (op == "Y") {
          sg4::this_actor::yield();
        }
      }
      while (depth > 0) {
        printf("Q %zu U\n", a);
        mutex->unlock();
        depth--;
        printf("A %zu U 1 %.9g\n", a, sg4::Engine::get_clock());
      }
      printf("D %zu\n", a);
    });
  }
  e.run();
  printf("END %.9g\n", sg4::Engine::get_clock());
  return 0;
}
