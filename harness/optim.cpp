// Harness for C19 (update algorithms and solver options give the same timings).
// Builds a platform through the C++ platform API from plain numbers (hosts with cores / pstates / speed profiles, shared / fat-pipe /
// split-duplex links with bandwidth and latency profiles, explicit routes), runs the scripts of a few concurrent actors and logs every
// activity date at the actor boundary and through the s4u signals. The SAME input is run under several --cfg sets by the checker, which
// compares the logs; nothing is decided here.
//
// stdin, platform part:
//   H <name> <cores> <npstates> <speed0> ...           host
//   HP <host> <period> <n> (<date> <scale>)*           speed profile (period > 0: repeats with that period; otherwise one-shot)
//   L <name> <bw> <lat> <S|F|D>                        link: Shared, Fatpipe, split-Duplex
//   LB <link> <period> <n> (<date> <bandwidth>)*       bandwidth profile (both halves of a split-duplex link)
//   LL <link> <period> <n> (<date> <latency>)*         latency profile
//   R <src> <dst> <sym 0|1> <n> (<link> <N|U|D>)*      route
//   X                                                  end of platform (seal)
// then the actors:
//   A <actor> <host>                                   starts the script of a new actor
//   S <d>                                              sleep_for
//   P <host> <pstate>                                  Host::set_pstate
//   E <id> <host> <flops> <bound|-1> <priority>        Exec::init()->set_host()...->start()->wait()
//   C <id> <src> <dst> <bytes>                         Comm::sendto_init(src,dst)...->start()->wait()   (set_rate is refused on these)
//   PUT <id> <mailbox> <bytes> <rate|-1>               Mailbox::put_init()[->set_rate()]->start()->wait()   (blocking rendez-vous)
//   GET <id> <mailbox>                                 Mailbox::get_init()->start()->wait()
//   AZ <actor> <d1> <d2>                               sleep d1; Actor::suspend() of that actor if it still runs; sleep d2; resume()
//   G <n> <z>                                          the next n lines (E / C) are started together; then the z following control
//                                                      lines are executed; then the n activities are waited in order
//     Z <id> <d1> <d2>                                   sleep d1; Activity::suspend() if it still runs; sleep d2; resume()
//     U <id> <d> <priority>                              sleep d; Exec::update_priority() if the exec still runs
//     W <d>                                              sleep d
//     P <host> <pstate>                                  Host::set_pstate
// log (stdout, %.17g):
//   B <id> <clock> <kind>                      by the owner, right after start()
//   F <id> <clock> <start_time> <finish_time> <time advances so far>   by the owner, right after wait() returned
//   s <name> <clock>                           Exec::on_start_cb / Comm::on_start_cb          (name = a<id>, a<id>r for the receiving side)
//   c <name> <clock> <start> <finish>          Exec::on_completion_cb / Comm::on_completion_cb
//   Z/R <id> <clock>, U <id> <clock>, P <host> <pstate> <clock>, AZ/AR <actor> <clock>
//   ZX / UX <id> <clock>, AZX <actor> <clock>  the guard of a control ("is the target still running?") said no: nothing done
//   SL <actor> <line#> <clock>                 after a sleep of the script returned
//   AE <actor> <clock>                         end of an actor
//   END <clock> <time advances>
// Batch mode (first line "CASE ..."): sequence of  CASE <tag> <engine flags...> / <case lines> / ENDCASE ; every case runs in a forked child
// (one Engine per process) and the parent prints  CASE <tag> ... child log ... DONE <tag> <exit code|-1> <signal|0>.
#include <simgrid/kernel/ProfileBuilder.hpp>
#include <simgrid/s4u.hpp>
#include <cstdio>
#include <cstdlib>
#include <iostream>
#include <map>
#include <sstream>
#include <string>
#include <sys/wait.h>
#include <unistd.h>
#include <vector>
namespace sg4 = simgrid::s4u;

static std::map<std::string, sg4::Host*> hosts;
static std::map<std::string, sg4::Link*> links;
static std::map<std::string, sg4::SplitDuplexLink*> dlinks;
static std::map<long, sg4::ActivityPtr> acts;
static std::map<std::string, sg4::ActorPtr> actors;
static std::map<std::string, bool> actor_done;
static long nadvance = 0;
static int nprofiles = 0;

static simgrid::kernel::profile::Profile* read_profile(std::istringstream& is, const std::string& what)
{
  double period;
  int n;
  is >> period >> n;
  std::ostringstream txt;
  txt.precision(17);
  for (int i = 0; i < n; i++) {
    double d, v;
    is >> d >> v;
    txt << d << " " << v << "\n";
  }
  return simgrid::kernel::profile::ProfileBuilder::from_string(what + std::to_string(nprofiles++), txt.str(), period > 0 ? period : -1);
}

static std::vector<std::string> read_platform(sg4::Engine& e, std::istream& in)
{
  std::vector<std::string> rest;
  auto* zone = e.get_netzone_root()->add_netzone_full("z");
  std::string line;
  bool plat_done = false;
  while (std::getline(in, line)) {
    if (line.empty())
      continue;
    if (plat_done) {
      rest.push_back(line);
      continue;
    }
    std::istringstream is(line);
    std::string k;
    is >> k;
    if (k == "H") {
      std::string name;
      int cores, np;
      is >> name >> cores >> np;
      std::vector<double> sp(np);
      for (auto& s : sp)
        is >> s;
      hosts[name] = zone->add_host(name, sp);
      if (cores != 1)
        hosts[name]->set_core_count(cores);
    } else if (k == "HP") {
      std::string h;
      is >> h;
      hosts.at(h)->set_speed_profile(read_profile(is, "hp"));
    } else if (k == "L") {
      std::string name, pol;
      double bw, lat;
      is >> name >> bw >> lat >> pol;
      if (pol == "D") {
        dlinks[name] = zone->add_split_duplex_link(name, bw);
        dlinks[name]->set_latency(lat);
      } else {
        links[name] = zone->add_link(name, bw)->set_latency(lat);
        if (pol == "F")
          links[name]->set_sharing_policy(sg4::Link::SharingPolicy::FATPIPE);
      }
    } else if (k == "LB" || k == "LL") {
      std::string l;
      is >> l;
      std::vector<sg4::Link*> tgt;
      if (dlinks.count(l)) {
        tgt.push_back(dlinks[l]->get_link_up());
        tgt.push_back(dlinks[l]->get_link_down());
      } else
        tgt.push_back(links.at(l));
      std::string restofline;
      std::getline(is, restofline);
      for (auto* t : tgt) { // one profile object per link: a profile iterator belongs to one resource
        std::istringstream ps(restofline);
        if (k == "LB")
          t->set_bandwidth_profile(read_profile(ps, "lb"));
        else
          t->set_latency_profile(read_profile(ps, "ll"));
      }
    } else if (k == "R") {
      std::string s, d;
      int sym, n;
      is >> s >> d >> sym >> n;
      std::vector<sg4::LinkInRoute> r;
      for (int i = 0; i < n; i++) {
        std::string ln, dir;
        is >> ln >> dir;
        if (dlinks.count(ln))
          r.emplace_back(dlinks[ln], dir == "U" ? sg4::LinkInRoute::Direction::UP : sg4::LinkInRoute::Direction::DOWN);
        else
          r.emplace_back(links.at(ln));
      }
      zone->add_route(hosts.at(s), hosts.at(d), r, sym != 0);
    } else if (k == "X") {
      zone->seal();
      plat_done = true;
    } else {
      fprintf(stderr, "bad platform line %s\n", line.c_str());
      abort();
    }
  }
  return rest;
}

static sg4::ActivityPtr make(const std::string& line, long& id)
{
  std::istringstream is(line);
  std::string k;
  is >> k >> id;
  if (k == "E") {
    std::string h;
    double fl, bound, prio;
    is >> h >> fl >> bound >> prio;
    auto ex = sg4::Exec::init()->set_host(hosts.at(h))->set_flops_amount(fl);
    if (bound > 0)
      ex->set_bound(bound);
    if (prio != 1)
      ex->set_priority(prio);
    ex->set_name("a" + std::to_string(id));
    return ex;
  }
  if (k == "C") {
    std::string s, d;
    double sz;
    is >> s >> d >> sz;
    auto c = sg4::Comm::sendto_init(hosts.at(s), hosts.at(d))->set_payload_size(sz);
    c->set_name("a" + std::to_string(id));
    return c;
  }
  fprintf(stderr, "bad op %s\n", line.c_str());
  abort();
}

static void begin(sg4::ActivityPtr a, long id, char kind)
{
  acts[id] = a;
  a->start();
  printf("B %ld %.17g %c\n", id, sg4::Engine::get_clock(), kind);
}
static void end(long id)
{
  auto a = acts[id];
  a->wait();
  printf("F %ld %.17g %.17g %.17g %ld\n", id, sg4::Engine::get_clock(), a->get_start_time(), a->get_finish_time(), nadvance);
  acts.erase(id);
}

static void set_pstate(std::istringstream& is)
{
  std::string h;
  int ps;
  is >> h >> ps;
  hosts.at(h)->set_pstate(ps);
  printf("P %s %d %.17g\n", h.c_str(), ps, sg4::Engine::get_clock());
}

static void actor(std::string me, std::vector<std::string> script)
{
  for (size_t i = 0; i < script.size(); i++) {
    std::istringstream is(script[i]);
    std::string k;
    is >> k;
    if (k == "S") {
      double d;
      is >> d;
      sg4::this_actor::sleep_for(d);
      printf("SL %s %zu %.17g\n", me.c_str(), i, sg4::Engine::get_clock());
    } else if (k == "P") {
      set_pstate(is);
    } else if (k == "AZ") {
      std::string who;
      double d1, d2;
      is >> who >> d1 >> d2;
      sg4::this_actor::sleep_for(d1);
      if (actor_done[who]) {
        printf("AZX %s %.17g\n", who.c_str(), sg4::Engine::get_clock()); // guard said "already over"
        continue;
      }
      actors.at(who)->suspend();
      printf("AZ %s %.17g\n", who.c_str(), sg4::Engine::get_clock());
      sg4::this_actor::sleep_for(d2);
      actors.at(who)->resume();
      printf("AR %s %.17g\n", who.c_str(), sg4::Engine::get_clock());
    } else if (k == "PUT") {
      long id;
      std::string mb;
      double sz, rate;
      is >> id >> mb >> sz >> rate;
      static char payload = 'x';
      auto c = sg4::Mailbox::by_name(mb)->put_init(&payload, (uint64_t)sz);
      if (rate > 0)
        c->set_rate(rate);
      c->set_name("a" + std::to_string(id));
      begin(c, id, 'M');
      end(id);
    } else if (k == "GET") {
      long id;
      std::string mb;
      is >> id >> mb;
      char* got = nullptr;
      auto c    = sg4::Mailbox::by_name(mb)->get_init()->set_dst_data((void**)&got, sizeof(void*));
      c->set_name("a" + std::to_string(id) + "r");
      begin(c, 1000000 + id, 'm');
      end(1000000 + id);
    } else if (k == "G") {
      int n;
      int z = 0;
      is >> n >> z;
      std::vector<long> ids;
      for (int j = 0; j < n; j++) {
        long id;
        auto a = make(script[++i], id);
        begin(a, id, script[i][0]);
        ids.push_back(id);
      }
      for (int j = 0; j < z; j++) {
        std::istringstream zs(script[++i]);
        std::string zk;
        zs >> zk;
        if (zk == "W") {
          double d;
          zs >> d;
          sg4::this_actor::sleep_for(d);
        } else if (zk == "P") {
          set_pstate(zs);
        } else if (zk == "Z") {
          long id;
          double d1, d2;
          zs >> id >> d1 >> d2;
          sg4::this_actor::sleep_for(d1);
          auto a = acts.at(id);
          if (a->test()) {
            printf("ZX %ld %.17g\n", id, sg4::Engine::get_clock()); // already over: nothing to suspend
            continue;
          }
          a->suspend();
          printf("Z %ld %.17g\n", id, sg4::Engine::get_clock());
          sg4::this_actor::sleep_for(d2);
          a->resume();
          printf("R %ld %.17g\n", id, sg4::Engine::get_clock());
        } else if (zk == "U") {
          long id;
          double d, prio;
          zs >> id >> d >> prio;
          sg4::this_actor::sleep_for(d);
          auto a = acts.at(id);
          if (a->test()) {
            printf("UX %ld %.17g\n", id, sg4::Engine::get_clock());
            continue;
          }
          static_cast<sg4::Exec*>(a.get())->update_priority(prio);
          printf("U %ld %.17g\n", id, sg4::Engine::get_clock());
        } else {
          fprintf(stderr, "bad control %s\n", script[i].c_str());
          abort();
        }
      }
      for (long id : ids)
        end(id);
    } else {
      long id;
      auto a = make(script[i], id);
      begin(a, id, k[0]);
      end(id);
    }
  }
  actor_done[me] = true;
  printf("AE %s %.17g\n", me.c_str(), sg4::Engine::get_clock());
}

static int run_case(std::vector<std::string> args, const std::string& text)
{
  std::vector<char*> argv;
  for (auto& a : args)
    argv.push_back(a.data());
  argv.push_back(nullptr);
  int argc = (int)args.size();
  sg4::Engine e(&argc, argv.data());
  std::istringstream in(text);
  auto rest = read_platform(e, in);
  std::string name, host;
  std::vector<std::string> script;
  auto flush = [&]() {
    if (not name.empty())
      actors[name] = hosts.at(host)->add_actor(name, actor, name, script);
    script.clear();
  };
  for (auto const& l : rest) {
    if (l[0] == 'A' && l[1] == ' ') {
      flush();
      std::istringstream is(l);
      std::string k;
      is >> k >> name >> host;
    } else
      script.push_back(l);
  }
  flush();
  sg4::Engine::on_time_advance_cb([](double) { nadvance++; });
  sg4::Exec::on_start_cb([](sg4::Exec const& x) { printf("s %s %.17g\n", x.get_cname(), sg4::Engine::get_clock()); });
  sg4::Comm::on_start_cb([](sg4::Comm const& x) { printf("s %s %.17g\n", x.get_cname(), sg4::Engine::get_clock()); });
  sg4::Exec::on_completion_cb([](sg4::Exec const& x) {
    printf("c %s %.17g %.17g %.17g\n", x.get_cname(), sg4::Engine::get_clock(), x.get_start_time(), x.get_finish_time());
  });
  sg4::Comm::on_completion_cb([](sg4::Comm const& x) {
    printf("c %s %.17g %.17g %.17g\n", x.get_cname(), sg4::Engine::get_clock(), x.get_start_time(), x.get_finish_time());
  });
  e.run();
  printf("END %.17g %ld\n", sg4::Engine::get_clock(), nadvance);
  fflush(stdout);
  return 0;
}

int main(int argc, char** argv)
{
  setvbuf(stdout, nullptr, _IOLBF, 0);
  std::vector<std::string> base(argv, argv + argc);
  std::vector<std::string> lines;
  std::string line;
  while (std::getline(std::cin, line))
    if (not line.empty())
      lines.push_back(line);
  if (lines.empty() || lines[0].rfind("CASE", 0) != 0) { // single case, engine flags on the command line
    std::string text;
    for (auto const& l : lines)
      text += l + "\n";
    return run_case(base, text);
  }
  long budget = getenv("C19_CASE_BUDGET") ? atol(getenv("C19_CASE_BUDGET")) : 300;
  for (size_t i = 0; i < lines.size();) {
    std::istringstream is(lines[i++]);
    std::string k, tag, f;
    is >> k >> tag;
    std::vector<std::string> args = base;
    while (is >> f)
      args.push_back(f);
    std::string text;
    while (i < lines.size() && lines[i] != "ENDCASE")
      text += lines[i++] + "\n";
    i++;
    printf("CASE %s\n", tag.c_str());
    fflush(stdout);
    fflush(stderr);
    pid_t pid = fork();
    if (pid < 0) {
      perror("fork");
      return 3;
    }
    if (pid == 0) {
      alarm((unsigned)budget); // watchdog of one case: the parent reports signal 14, which the checker counts as inconclusive
      int rc = run_case(args, text);
      fflush(stdout);
      _exit(rc);
    }
    int st = 0;
    waitpid(pid, &st, 0);
    printf("DONE %s %d %d\n", tag.c_str(), WIFEXITED(st) ? WEXITSTATUS(st) : -1, WIFSIGNALED(st) ? WTERMSIG(st) : 0);
    fflush(stdout);
  }
  return 0;
}
