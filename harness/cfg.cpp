// E4 harness for C48: drives the real configuration registry of libsimgrid (xbt/config.cpp + every Flag registered by
// the library) through all its entry points, one attempt per forked child (validation callbacks may xbt_die).
//
//   cfg --help | --help-aliases            the library's own listing of items / aliases (parsed by the Python side)
//   cfg run                                attempts on stdin, one per line (fields separated by one blank, strings hex-encoded,
//                                          "-" = empty string):
//        <route> <type> <name> <value> [<name> <value> ...]
//      route: parse   simgrid::config::set_parse(<name>)  where <name> is the whole raw option string "n:v[<sep>n:v...]", <value> = "-"
//             engine  simgrid::s4u::Engine::set_config(<name>)    idem
//             str     simgrid::config::set_as_string(name, value)
//             typed   simgrid::config::set_value<T>(name, T)      value = int decimal | double %a | bool 0/1 | string
//             ctyped  sg_cfg_set_int / sg_cfg_set_double / sg_cfg_set_string  (no bool in the C API)
//             get     no set at all: simgrid::config::get_value<T>(name) only (unknown-name rejection on the read side)
//      type: int|double|boolean|string  = the type of the item as listed by --help (used to read the value back)
//      after the name/value pairs: "read" followed by <type> <name> pairs to read back in the same child.
//   cfg argv <type:name,...> -- <args>      fresh Engine initialised with <args> (the --cfg= route), then the names are read back
//
// stdout, per attempt: lines "CB <name> <value>" for every callback invocation of the harness-declared flags, then exactly one of
//   "<idx> OK <name> <value> [<name> <value> ...]"   values read back with get_value<T>
//   "<idx> EXC <class> <what-hex> [<name> <value> ...]"   class in out_of_range|range_error|other ; values read back after the exception
//   "<idx> DIED <signal|exit:N>"
#include "simgrid/s4u/Engine.hpp"
#include "xbt/config.h"
#include "xbt/config.hpp"
#include <cmath>
#include <cstdio>
#include <cstring>
#include <iostream>
#include <sstream>
#include <stdexcept>
#include <string>
#include <sys/wait.h>
#include <unistd.h>
#include <vector>

static std::string unhex(const std::string& h)
{
  if (h == "-")
    return std::string();
  std::string s;
  for (size_t i = 0; i + 1 < h.size(); i += 2)
    s.push_back((char)std::stoi(h.substr(i, 2), nullptr, 16));
  return s;
}
static std::string hex(const std::string& s)
{
  if (s.empty())
    return "-";
  static const char* d = "0123456789abcdef";
  std::string h;
  for (unsigned char c : s) {
    h.push_back(d[c >> 4]);
    h.push_back(d[c & 15]);
  }
  return h;
}

// ---- flags declared by the harness itself: every bind_flag shape of xbt/config.hpp, with known validation -----------------
static void cb_print(const char* name, const std::string& v)
{
  printf("CB %s %s\n", name, v.c_str());
  fflush(stdout);
}
static simgrid::config::Flag<int> f_int_plain("verif/int-plain", {"verif/int_plain_old", "verif/IntPlain"}, "plain int", 7);
static simgrid::config::Flag<int> f_int_cb("verif/int-cb", "int with a void callback", -3,
                                           [](const int& v) { cb_print("verif/int-cb", std::to_string(v)); });
static simgrid::config::Flag<int> f_int_pred("verif/int-pred", "int accepted in [-5,1000] only", 0, [](const int& v) {
  cb_print("verif/int-pred", std::to_string(v));
  return v >= -5 && v <= 1000;
});
static simgrid::config::Flag<double> f_dbl_plain("verif/double-plain", {"verif/double_plain_old"}, "plain double", 0.5);
static simgrid::config::Flag<double> f_dbl_pred("verif/double-pred", "double accepted when >= 0", 1.0, [](const double& v) {
  char buf[64];
  snprintf(buf, sizeof buf, "%a", v);
  cb_print("verif/double-pred", buf);
  return v >= 0;
});
static simgrid::config::Flag<bool> f_bool_plain("verif/bool-plain", {"verif/bool_plain_old"}, "plain bool", false);
static simgrid::config::Flag<bool> f_bool_cb("verif/bool-cb", "bool with a void callback", true,
                                             [](const bool& v) { cb_print("verif/bool-cb", v ? "1" : "0"); });
static simgrid::config::Flag<std::string> f_str_plain("verif/str-plain", {"verif/str_plain_old"}, "plain string", std::string("dflt"));
static simgrid::config::Flag<std::string> f_str_cb("verif/str-cb", "string with a void callback", "",
                                                   [](const std::string& v) { cb_print("verif/str-cb", hex(v)); });
static simgrid::config::Flag<std::string> f_str_enum("verif/str-enum", "string with enumerated legal values", "b",
                                                     {{"a", "first"}, {"b", "second"}, {"c-d", "third"}, {"A", "upper"}});
static simgrid::config::Flag<std::string> f_str_enum_cb("verif/str-enum-cb", {"verif/str_enum_cb_old"},
                                                        "string with enumerated legal values and a callback", "x",
                                                        {{"x", "ex"}, {"yy", "why"}, {"", "empty"}},
                                                        [](const std::string& v) { cb_print("verif/str-enum-cb", hex(v)); });

static std::string read_back(const std::string& type, const std::string& name)
{
  char buf[80];
  if (type == "int") {
    snprintf(buf, sizeof buf, "%d", simgrid::config::get_value<int>(name));
    return buf;
  }
  if (type == "double") {
    snprintf(buf, sizeof buf, "%a", simgrid::config::get_value<double>(name));
    return buf;
  }
  if (type == "boolean")
    return simgrid::config::get_value<bool>(name) ? "1" : "0";
  return hex(simgrid::config::get_value<std::string>(name));
}

static void set_typed(const std::string& type, const std::string& name, const std::string& v, bool c_api)
{
  if (type == "int") {
    int x = (int)strtol(v.c_str(), nullptr, 10);
    c_api ? sg_cfg_set_int(name.c_str(), x) : simgrid::config::set_value<int>(name.c_str(), x);
  } else if (type == "double") {
    double x = strtod(v.c_str(), nullptr);
    c_api ? sg_cfg_set_double(name.c_str(), x) : simgrid::config::set_value<double>(name.c_str(), x);
  } else if (type == "boolean") {
    simgrid::config::set_value<bool>(name.c_str(), v == "1");
  } else {
    c_api ? sg_cfg_set_string(name.c_str(), v.c_str()) : simgrid::config::set_value<std::string>(name.c_str(), v);
  }
}

struct Attempt {
  std::string route, type;
  std::vector<std::pair<std::string, std::string>> sets;  // name, value (decoded)
  std::vector<std::pair<std::string, std::string>> reads; // type, name
};

static void do_attempt(long idx, const Attempt& a)
{
  std::string reads;
  auto collect = [&]() {
    std::string r;
    for (auto const& [t, n] : a.reads) {
      try {
        r += " " + hex(n) + " " + read_back(t, n);
      } catch (const std::exception& e) {
        r += " " + hex(n) + " !";
      }
    }
    return r;
  };
  try {
    if (a.route == "parse" || a.route == "engine") {
      // one pair only: the "name" is the raw option string ("name:value[<sep>name:value...]")
      const std::string& opt = a.sets.at(0).first;
      if (a.route == "parse")
        simgrid::config::set_parse(opt);
      else
        simgrid::s4u::Engine::set_config(opt);
    } else if (a.route == "str") {
      for (auto const& [n, v] : a.sets)
        simgrid::config::set_as_string(n.c_str(), v);
    } else if (a.route == "typed" || a.route == "ctyped") {
      for (auto const& [n, v] : a.sets)
        set_typed(a.type, n, v, a.route == "ctyped");
    } else if (a.route == "get") {
      for (auto const& [n, v] : a.sets)
        (void)read_back(a.type, n);
    }
    printf("%ld OK%s\n", idx, collect().c_str());
  } catch (const std::out_of_range& e) {
    printf("%ld EXC out_of_range %s%s\n", idx, hex(std::string(e.what()).substr(0, 60)).c_str(), collect().c_str());
  } catch (const std::range_error& e) {
    printf("%ld EXC range_error %s%s\n", idx, hex(e.what()).c_str(), collect().c_str());
  } catch (const std::exception& e) {
    printf("%ld EXC other %s%s\n", idx, hex(e.what()).c_str(), collect().c_str());
  }
  fflush(stdout);
}

int main(int argc, char** argv)
{
  setvbuf(stdout, nullptr, _IOLBF, 0);
  if (argc >= 2 && strcmp(argv[1], "argv") == 0) {
    // cfg argv <type:hexname,...> -- args...
    std::vector<std::pair<std::string, std::string>> reads;
    std::stringstream ss(argv[2]);
    std::string tok;
    while (std::getline(ss, tok, ',')) {
      auto p = tok.find(':');
      reads.emplace_back(tok.substr(0, p), unhex(tok.substr(p + 1)));
    }
    std::vector<char*> av{argv[0]};
    for (int i = 4; i < argc; i++)
      av.push_back(argv[i]);
    int ac = (int)av.size();
    av.push_back(nullptr);
    printf("READY\n");
    auto collect = [&]() {
      std::string r;
      for (auto const& [t, n] : reads) {
        try {
          r += " " + hex(n) + " " + read_back(t, n);
        } catch (const std::exception& e) {
          r += " " + hex(n) + " !";
        }
      }
      return r;
    };
    try {
      simgrid::s4u::Engine e(&ac, av.data());
      printf("0 OK%s\n", collect().c_str());
    } catch (const std::out_of_range& e) {
      printf("0 EXC out_of_range -%s\n", collect().c_str());
    } catch (const std::range_error& e) {
      printf("0 EXC range_error %s%s\n", hex(e.what()).c_str(), collect().c_str());
    } catch (const std::exception& e) {
      printf("0 EXC other %s%s\n", hex(e.what()).c_str(), collect().c_str());
    }
    fflush(stdout);
    _exit(0);
  }
  bool run = argc >= 2 && strcmp(argv[1], "run") == 0;
  simgrid::s4u::Engine e(&argc, argv); // with --help / --help-aliases this prints the registry and exits
  if (not run)
    return 0;

  printf("READY\n");
  std::string line;
  long idx = 0;
  while (std::getline(std::cin, line)) {
    std::stringstream ss(line);
    Attempt a;
    ss >> a.route >> a.type;
    std::string x, y;
    bool reading = false;
    while (ss >> x) {
      if (x == "read") {
        reading = true;
        continue;
      }
      ss >> y;
      if (reading)
        a.reads.emplace_back(x, unhex(y));
      else
        a.sets.emplace_back(unhex(x), unhex(y));
    }
    fflush(stdout);
    pid_t pid = fork();
    if (pid == 0) {
      do_attempt(idx, a);
      _exit(0);
    }
    int st = 0;
    waitpid(pid, &st, 0);
    if (WIFSIGNALED(st))
      printf("%ld DIED %d\n", idx, WTERMSIG(st));
    else if (WEXITSTATUS(st) != 0)
      printf("%ld DIED exit:%d\n", idx, WEXITSTATUS(st));
    idx++;
  }
  fflush(stdout);
  _exit(0);
}
