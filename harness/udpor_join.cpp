// C44: S4U program run under the real simgrid-mc --cfg=model-check/reduction:udpor with mc_udpor.thres:verbose (the traces UDPOR
// prints come from Configuration::get_topologically_sorted_events()).
// w does one lock/unlock; J1 joins w; J(i+1) joins J(i), then joins w: that second join gets the causes {its first join, w's last
// event}, and w's last event precedes its first join (through J(i)'s joins)
#include <cstdlib>
#include <simgrid/s4u.hpp>
#include <string>
namespace sg4 = simgrid::s4u;
int main(int argc, char* argv[])
{
  sg4::Engine e(&argc, argv);
  int n      = argc > 1 ? atoi(argv[1]) : 2;
  auto* zone = e.get_netzone_root();
  auto* h    = zone->add_host("h", 1e9);
  zone->seal();
  auto m = sg4::Mutex::create();
  sg4::ActorPtr w    = h->add_actor("w", [m]() { m->lock(); m->unlock(); });
  sg4::ActorPtr prev = h->add_actor("J1", [w]() { w->join(); });
  for (int i = 2; i <= n; i++)
    prev = h->add_actor("J" + std::to_string(i), [prev, w]() { prev->join(); w->join(); });
  e.run();
  return 0;
}
