// Harness for C03 (simulated time is monotone; events happen exactly at their date).
//
// stdin: scenarios, each a block of lines
//   S <id>
//   C <cfg> ...                         extra command-line items of the Engine (e.g. --cfg=cpu/optim:Full)
//   H <name> <speed> [<profile>]        host; profile = "date=value:date=value:..." (speed profile, absolute dates, no loop) or "-"
//   L <name> <bandwidth> <latency>      shared link
//   R <host> <host> <link>              symmetric one-link route
//   K <host> <read_bw> <write_bw>       one disk on that host
//   A <host> <killtime|-> | <op> ...    top-level actor (index = order of the A lines, created by main() before the run)
//   P | <op> ...                        program of a child (index = order of the P lines), instantiated by "sp" ops
//   M <mop> ...                         what main() does once the actors exist: ru:<date> (Engine::run_until), tm:<date>:<tag>
//                                       (kernel timer set by maestro between two runs), run (Engine::run)
//   E
// Ops (fields separated by ':'):
//   s:<d> sleep_for   u:<t> sleep_until   ur:<d> sleep_until(now+d)   y yield
//   x:<flops> blocking exec   xa:<flops>:<slot> started exec   xi:<flops>:<slot> exec created, not started   st:<slot> start it
//   p:<mbox>:<bytes> blocking put   g:<mbox> blocking get   pa:<mbox>:<bytes>:<slot>   ga:<mbox>:<slot>
//   ir:<bytes> iw:<bytes> blocking disk read/write   ia:<r|w>:<bytes>:<slot>
//   w:<slot> wait()   ts:<slot> test()
//   t:<date>:<tag>[:<chain>] kernel timer at an absolute date (skipped when the date is in the past)   tr:<delay>:<tag>[:<chain>] timer
//       at now+delay; with <chain> the callback of the timer sets a second timer (tag "<tag>+") <chain> seconds after the date it runs at
//   k:<actor index>:<date> set_kill_time on a top-level actor (skipped when it is dead or the date is not in the future)
//   kr:<actor index>:<delay> same at now+delay
//   sp:<program>:<host>:<kill delay|-> create a child running that program (kill time = now+delay set by the parent right away)
//
// Every scenario runs in a forked child (one Engine per process). stdout (line buffered): "B <id>", the child's records and
// "X <id> <status>" once the child is reaped (exit code, or 1000+signal; 1014 = the per-scenario wall-clock guard fired); the child's
// stderr is redirected to stdout.
// A record is "<KIND> <clock %.17g> ...", the clock being Engine::get_clock() when the record is written; the records of one
// scenario form one totally ordered stream (the kernel is sequential):
//   CR pid name            Actor::on_creation signal          BG pid name host          first instruction of the actor's body
//   Q pid idx op args...   before the call                    A pid idx outcome k=v...   after it returned (outcome ok | exc:<type> | skip)
//   Z pid                  end of the script                  XT pid failed              on_exit callback     TM pid   on_termination signal
//   AS kind name start     Activity on_start signal           AC kind name state start finish     on_completion signal
//   F tag date             a kernel timer fires               PS host speed              Host::on_speed_change signal
//   H where next_timer     kernel-quiescent hook (identical consecutive lines are printed once; every call is checked online)
//   D delta                Engine::on_time_advance signal (same compression for runs of zero deltas)
//   RU date                Engine::run_until(date) returned   END                        Engine::run() returned
//   NONMONO previous       written by the online monitor when the clock it reads is smaller than at the previous observation
//   LIVELOCK n             n consecutive time advances of 0 s without any other event in between: the harness gives up
#include <simgrid/kernel/ProfileBuilder.hpp>
#include <simgrid/kernel/Timer.hpp>
#include <simgrid/s4u.hpp>
#include <simgrid/simcall.hpp>
#include "src/verif_hooks.hpp"

#include <cmath>
#include <cstdio>
#include <cstdlib>
#include <cstring>
#include <iostream>
#include <map>
#include <set>
#include <sstream>
#include <string>
#include <sys/wait.h>
#include <typeinfo>
#include <unistd.h>
#include <vector>

namespace sg4 = simgrid::s4u;
using simgrid::kernel::timer::Timer;

struct ActorSpec {
  std::string host;
  std::string kill;
  std::vector<std::string> ops;
};
struct HostSpec {
  std::string name;
  double speed;
  std::string profile;
};
struct Scenario {
  std::string id;
  std::vector<std::string> cfg;
  std::vector<HostSpec> hosts;
  std::vector<std::vector<std::string>> links, routes, disks;
  std::vector<ActorSpec> actors;
  std::vector<std::vector<std::string>> programs;
  std::vector<std::string> mops;
};

// ------------------------------------------------------------------------------------------------ recorder + online monitor
static double last_clock    = 0.0;
static bool last_was_H      = false;
static int last_H_where     = -1;
static double last_H_nt     = -2;
static long zero_advances   = 0; // consecutive on_time_advance(0) with nothing in between
static long suppressed      = 0;
static const long LIVELOCK_N = 200000;

static double observe()
{
  double c = sg4::Engine::get_clock();
  if (c < last_clock)
    printf("NONMONO %.17g %.17g\n", c, last_clock);
  last_clock = c;
  return c;
}
// every record goes through here
#define REC(kind, fmt, ...)                                                                                                    \
  do {                                                                                                                         \
    double c__ = observe();                                                                                                    \
    last_was_H = false;                                                                                                        \
    zero_advances = 0;                                                                                                         \
    printf(kind " %.17g " fmt "\n", c__, ##__VA_ARGS__);                                                                       \
  } while (0)

static void quiescent(int where)
{
  double c  = observe();
  double nt = Timer::next();
  if (last_was_H && where == last_H_where && nt == last_H_nt) {
    suppressed++;
    return;
  }
  printf("H %.17g %d %.17g\n", c, where, nt);
  last_was_H   = true;
  last_H_where = where;
  last_H_nt    = nt;
}

static void time_advance(double delta)
{
  double c = observe();
  if (delta == 0) {
    zero_advances++;
    if (zero_advances > 1) { // printed once per run of empty zero advances
      if (zero_advances >= LIVELOCK_N) {
        printf("LIVELOCK %.17g %ld\n", c, zero_advances);
        fflush(stdout);
        _exit(3);
      }
      return;
    }
  } else
    zero_advances = 0;
  last_was_H = false;
  printf("D %.17g %.17g\n", c, delta);
}

static std::string exc_name(const std::exception& e)
{
  std::string n = typeid(e).name();
  for (const char* k : {"TimeoutException", "CancelException", "NetworkFailureException", "HostFailureException", "StorageFailureException"})
    if (n.find(k) != std::string::npos)
      return k;
  return n;
}

// ------------------------------------------------------------------------------------------------ actors
static Scenario* SC;
static std::vector<sg4::ActorPtr> top_actors;
static std::set<aid_t> dead;
static std::vector<sg4::ActivityPtr> keep_alive; // a started comm must not be destroyed before its completion: nothing is ever dropped
static int payloads[4096];
static int next_payload = 0;

static std::vector<std::string> fields(const std::string& op)
{
  std::vector<std::string> f;
  std::string cur;
  for (char ch : op) {
    if (ch == ':') {
      f.push_back(cur);
      cur.clear();
    } else
      cur += ch;
  }
  f.push_back(cur);
  return f;
}
static double num(const std::string& s)
{
  return strtod(s.c_str(), nullptr);
}

// chain >= 0: the callback of the timer sets a second timer (tag "<tag>+") for the date at which it runs + chain
static void set_timer(double date, const std::string& tag, double chain = -1)
{
  Timer::set(date, [date, tag, chain]() {
    REC("F", "%s %.17g", tag.c_str(), date);
    if (chain >= 0) {
      double d2 = sg4::Engine::get_clock() + chain;
      REC("Q", "0 0 t %.17g %s+", d2, tag.c_str());
      set_timer(d2, tag + "+");
    }
  });
}

static void run_script(const std::vector<std::string>& ops);

static void actor_body(std::string name, std::vector<std::string> ops)
{
  aid_t pid = sg4::this_actor::get_pid();
  REC("BG", "%ld %s %s", pid, name.c_str(), sg4::this_actor::get_host()->get_cname());
  sg4::this_actor::on_exit([pid](bool failed) { REC("XT", "%ld %d", pid, failed ? 1 : 0); });
  run_script(ops);
  REC("Z", "%ld", pid);
}

static void times(char* buf, size_t n, const sg4::Activity* a)
{
  snprintf(buf, n, "state=%s st=%.17g fi=%.17g", a->get_state_str(), a->get_start_time(), a->get_finish_time());
}

static void run_script(const std::vector<std::string>& ops)
{
  aid_t pid  = sg4::this_actor::get_pid();
  auto* host = sg4::this_actor::get_host();
  std::map<int, sg4::ActivityPtr> slots;
  char tb[200];
  for (size_t i = 0; i < ops.size(); i++) {
    auto f                = fields(ops[i]);
    const std::string& op = f[0];
    std::string aname     = std::to_string(pid) + "." + std::to_string(i);
    try {
      if (op == "s") {
        double d = num(f[1]);
        REC("Q", "%ld %zu s %.17g", pid, i, d);
        sg4::this_actor::sleep_for(d);
        REC("A", "%ld %zu ok", pid, i);
      } else if (op == "u" || op == "ur") {
        double t = op == "u" ? num(f[1]) : sg4::Engine::get_clock() + num(f[1]);
        REC("Q", "%ld %zu u %.17g", pid, i, t);
        sg4::this_actor::sleep_until(t);
        REC("A", "%ld %zu ok", pid, i);
      } else if (op == "y") {
        REC("Q", "%ld %zu y", pid, i);
        sg4::this_actor::yield();
        REC("A", "%ld %zu ok", pid, i);
      } else if (op == "x" || op == "xa" || op == "xi") {
        double fl = num(f[1]);
        REC("Q", "%ld %zu %s %.17g %s", pid, i, op.c_str(), fl, aname.c_str());
        sg4::ExecPtr ex = sg4::Exec::init()->set_flops_amount(fl)->set_host(host);
        ex->set_name(aname);
        keep_alive.push_back(ex);
        if (op == "x") {
          ex->start();
          ex->wait();
        } else {
          if (op == "xa")
            ex->start();
          slots[std::stoi(f[2])] = ex;
        }
        times(tb, sizeof tb, ex.get());
        REC("A", "%ld %zu ok %s", pid, i, tb);
      } else if (op == "st") {
        auto it = slots.find(std::stoi(f[1]));
        if (it == slots.end() || it->second->get_state() != sg4::Activity::State::INITED) {
          REC("A", "%ld %zu skip", pid, i);
          continue;
        }
        REC("Q", "%ld %zu st %s", pid, i, it->second->get_cname());
        it->second->start();
        times(tb, sizeof tb, it->second.get());
        REC("A", "%ld %zu ok %s", pid, i, tb);
      } else if (op == "p" || op == "pa") {
        auto* mb       = sg4::Mailbox::by_name(f[1]);
        double bytes   = num(f[2]);
        int* payload   = &payloads[next_payload++ % 4096];
        *payload       = static_cast<int>(pid * 1000 + i);
        REC("Q", "%ld %zu %s %s %.17g %s", pid, i, op.c_str(), f[1].c_str(), bytes, aname.c_str());
        sg4::CommPtr c = mb->put_init(payload, static_cast<uint64_t>(bytes));
        c->set_name(aname);
        keep_alive.push_back(c);
        c->start(); // (start() then wait(), as Mailbox::put() does)
        if (op == "p")
          c->wait();
        else
          slots[std::stoi(f[3])] = c;
        times(tb, sizeof tb, c.get());
        REC("A", "%ld %zu ok %s", pid, i, tb);
      } else if (op == "g" || op == "ga") {
        auto* mb = sg4::Mailbox::by_name(f[1]);
        REC("Q", "%ld %zu %s %s %s", pid, i, op.c_str(), f[1].c_str(), aname.c_str());
        // the destination buffer must outlive the actor (the comm may complete after a kill): leaked on purpose
        auto** dst     = new int*(nullptr);
        sg4::CommPtr c = mb->get_init()->set_dst_data(reinterpret_cast<void**>(dst), sizeof(void*));
        c->set_name(aname);
        keep_alive.push_back(c);
        c->start();
        if (op == "g")
          c->wait();
        else
          slots[std::stoi(f[2])] = c;
        times(tb, sizeof tb, c.get());
        REC("A", "%ld %zu ok %s got=%d", pid, i, tb, *dst ? **dst : -1);
      } else if (op == "ir" || op == "iw" || op == "ia") {
        bool async   = op == "ia";
        bool rd      = async ? f[1] == "r" : op == "ir";
        double bytes = num(async ? f[2] : f[1]);
        if (host->get_disks().empty()) {
          REC("A", "%ld %zu skip", pid, i);
          continue;
        }
        REC("Q", "%ld %zu %s %s %.17g %s", pid, i, op.c_str(), rd ? "r" : "w", bytes, aname.c_str());
        sg4::IoPtr io = host->get_disks().front()->io_init(static_cast<sg_size_t>(bytes), rd ? sg4::Io::OpType::READ : sg4::Io::OpType::WRITE);
        io->set_name(aname);
        keep_alive.push_back(io);
        io->start();
        if (async)
          slots[std::stoi(f[3])] = io;
        else
          io->wait();
        times(tb, sizeof tb, io.get());
        REC("A", "%ld %zu ok %s", pid, i, tb);
      } else if (op == "w" || op == "ts") {
        auto it = slots.find(std::stoi(f[1]));
        if (it == slots.end()) {
          REC("A", "%ld %zu skip", pid, i);
          continue;
        }
        sg4::ActivityPtr a = it->second;
        REC("Q", "%ld %zu %s %s", pid, i, op.c_str(), a->get_cname());
        int res = 1;
        if (op == "w")
          a->wait();
        else
          res = a->test() ? 1 : 0;
        times(tb, sizeof tb, a.get());
        REC("A", "%ld %zu ok %s res=%d", pid, i, tb, res);
      } else if (op == "t" || op == "tr") {
        double date = op == "t" ? num(f[1]) : sg4::Engine::get_clock() + num(f[1]);
        if (date < sg4::Engine::get_clock()) {
          REC("A", "%ld %zu skip", pid, i);
          continue;
        }
        std::string tag = f[2] + "@" + std::to_string(pid);
        REC("Q", "%ld %zu t %.17g %s", pid, i, date, tag.c_str());
        double chain = f.size() > 3 ? num(f[3]) : -1;
        simgrid::kernel::actor::simcall_answered([date, tag, chain]() { set_timer(date, tag, chain); });
        REC("A", "%ld %zu ok", pid, i);
      } else if (op == "k" || op == "kr") {
        size_t target = std::stoul(f[1]);
        double date   = op == "k" ? num(f[2]) : sg4::Engine::get_clock() + num(f[2]);
        if (target >= top_actors.size() || dead.count(top_actors[target]->get_pid()) || date <= sg4::Engine::get_clock()) {
          REC("A", "%ld %zu skip", pid, i);
          continue;
        }
        REC("Q", "%ld %zu k %ld %.17g", pid, i, top_actors[target]->get_pid(), date);
        top_actors[target]->set_kill_time(date);
        REC("A", "%ld %zu ok kt=%.17g", pid, i, top_actors[target]->get_kill_time());
      } else if (op == "sp") {
        size_t prog = std::stoul(f[1]);
        auto* h     = sg4::Host::by_name(f[2]);
        REC("Q", "%ld %zu sp %zu %s %s", pid, i, prog, f[2].c_str(), f[3].c_str());
        std::string cname = "c" + aname;
        sg4::ActorPtr ch  = h->add_actor(cname, actor_body, cname, SC->programs.at(prog));
        double kt         = -1;
        if (f[3] != "-") {
          kt = sg4::Engine::get_clock() + num(f[3]);
          if (kt > sg4::Engine::get_clock())
            ch->set_kill_time(kt);
          else
            kt = -1;
        }
        REC("A", "%ld %zu ok child=%ld kt=%.17g", pid, i, ch->get_pid(), kt);
      } else {
        REC("A", "%ld %zu skip", pid, i);
      }
    } catch (const std::exception& e) {
      REC("A", "%ld %zu exc:%s", pid, i, exc_name(e).c_str());
    }
  }
}

// ------------------------------------------------------------------------------------------------ one scenario
static int run_scenario(Scenario& sc, const char* argv0)
{
  SC = &sc;
  std::vector<std::string> args = {argv0, "--log=root.thres:critical"};
  for (auto const& c : sc.cfg)
    args.push_back(c);
  std::vector<char*> argv;
  for (auto& a : args)
    argv.push_back(a.data());
  argv.push_back(nullptr);
  int argc = static_cast<int>(args.size());
  sg4::Engine e(&argc, argv.data());

  auto* root = e.get_netzone_root();
  std::map<std::string, sg4::Host*> hosts;
  std::map<std::string, sg4::Link*> links;
  for (auto const& h : sc.hosts) {
    hosts[h.name] = root->add_host(h.name, h.speed);
    if (h.profile != "-" && not h.profile.empty()) {
      std::string txt;
      for (auto const& ev : fields(h.profile)) { // "date=value" items separated by ':'
        auto eq = ev.find('=');
        txt += ev.substr(0, eq) + " " + ev.substr(eq + 1) + "\n";
      }
      hosts[h.name]->set_speed_profile(simgrid::kernel::profile::ProfileBuilder::from_string("prof-" + h.name, txt, -1));
    }
  }
  for (auto const& l : sc.links)
    links[l[0]] = root->add_link(l[0], num(l[1]))->set_latency(num(l[2]));
  for (auto const& r : sc.routes)
    root->add_route(hosts.at(r[0]), hosts.at(r[1]), {links.at(r[2])});
  for (auto const& d : sc.disks)
    hosts.at(d[0])->add_disk("disk-" + d[0], num(d[1]), num(d[2]));
  root->seal();

  sg4::Actor::on_creation_cb([](sg4::Actor const& a) { REC("CR", "%ld %s", a.get_pid(), a.get_cname()); });
  sg4::Actor::on_termination_cb([](sg4::Actor const& a) {
    dead.insert(a.get_pid());
    REC("TM", "%ld", a.get_pid());
  });
  sg4::Exec::on_start_cb([](sg4::Exec const& a) { REC("AS", "exec %s %.17g", a.get_cname(), a.get_start_time()); });
  sg4::Comm::on_start_cb([](sg4::Comm const& a) { REC("AS", "comm %s %.17g", a.get_cname(), a.get_start_time()); });
  sg4::Io::on_start_cb([](sg4::Io const& a) { REC("AS", "io %s %.17g", a.get_cname(), a.get_start_time()); });
  sg4::Exec::on_completion_cb([](sg4::Exec const& a) { REC("AC", "exec %s %s %.17g %.17g", a.get_cname(), a.get_state_str(), a.get_start_time(), a.get_finish_time()); });
  sg4::Comm::on_completion_cb([](sg4::Comm const& a) { REC("AC", "comm %s %s %.17g %.17g", a.get_cname(), a.get_state_str(), a.get_start_time(), a.get_finish_time()); });
  sg4::Io::on_completion_cb([](sg4::Io const& a) { REC("AC", "io %s %s %.17g %.17g", a.get_cname(), a.get_state_str(), a.get_start_time(), a.get_finish_time()); });
  sg4::Host::on_speed_change_cb([](sg4::Host const& h) { REC("PS", "%s %.17g", h.get_cname(), h.get_speed()); });
  sg4::Engine::on_time_advance_cb(time_advance);
  simgrid::verif::on_kernel_quiescent = quiescent;

  for (size_t i = 0; i < sc.actors.size(); i++) {
    auto const& a    = sc.actors[i];
    std::string name = "a" + std::to_string(i);
    auto actor       = hosts.at(a.host)->add_actor(name, actor_body, name, a.ops);
    if (a.kill != "-")
      actor->set_kill_time(num(a.kill));
    top_actors.push_back(actor);
  }
  for (auto const& m : sc.mops) {
    auto f = fields(m);
    if (f[0] == "ru") {
      double t = num(f[1]);
      if (t < sg4::Engine::get_clock())
        continue;
      e.run_until(t);
      REC("RU", "%.17g", t);
    } else if (f[0] == "tm") {
      double t = num(f[1]);
      if (t < sg4::Engine::get_clock())
        continue;
      REC("Q", "0 0 t %.17g %s", t, f[2].c_str());
      set_timer(t, f[2]);
    } else if (f[0] == "run") {
      e.run();
      REC("END", "%ld", suppressed);
    }
  }
  simgrid::verif::on_kernel_quiescent = nullptr;
  fflush(stdout);
  return 0; // the caller _exit()s: no destructor runs on half-finished activities
}

static std::vector<std::string> toks(const std::string& s)
{
  std::istringstream is(s);
  std::vector<std::string> v;
  std::string t;
  while (is >> t)
    v.push_back(t);
  return v;
}

int main(int argc, char** argv)
{
  setvbuf(stdout, nullptr, _IOLBF, 0);
  std::string line;
  Scenario sc;
  bool open = false;
  while (std::getline(std::cin, line)) {
    auto t = toks(line);
    if (t.empty())
      continue;
    if (t[0] == "S") {
      sc      = Scenario();
      sc.id   = t.at(1);
      open    = true;
    } else if (not open) {
      continue;
    } else if (t[0] == "C") {
      sc.cfg.assign(t.begin() + 1, t.end());
    } else if (t[0] == "H") {
      sc.hosts.push_back({t.at(1), num(t.at(2)), t.size() > 3 ? t[3] : "-"});
    } else if (t[0] == "L") {
      sc.links.emplace_back(t.begin() + 1, t.end());
    } else if (t[0] == "R") {
      sc.routes.emplace_back(t.begin() + 1, t.end());
    } else if (t[0] == "K") {
      sc.disks.emplace_back(t.begin() + 1, t.end());
    } else if (t[0] == "A") {
      ActorSpec a;
      a.host = t.at(1);
      a.kill = t.at(2);
      a.ops.assign(t.begin() + 4, t.end()); // t[3] is the '|'
      sc.actors.push_back(a);
    } else if (t[0] == "P") {
      sc.programs.emplace_back(t.begin() + 2, t.end());
    } else if (t[0] == "M") {
      sc.mops.assign(t.begin() + 1, t.end());
    } else if (t[0] == "E") {
      open = false;
      printf("B %s\n", sc.id.c_str());
      fflush(stdout);
      pid_t pid = fork();
      if (pid == 0) {
        dup2(1, 2);
        // wall-clock guard of one scenario (SimGrid itself may hang, e.g. thread contexts re-scheduling a dead actor): the
        // child dies with SIGALRM (status 1014), which the checker reports as inconclusive, never as a verdict
        const char* wd = getenv("VERIF_C03_ALARM");
        alarm(wd ? atoi(wd) : 150);
        int rc = run_scenario(sc, argv[0]);
        fflush(stdout);
        _exit(rc);
      }
      int st = 0;
      waitpid(pid, &st, 0);
      int status = WIFEXITED(st) ? WEXITSTATUS(st) : 1000 + WTERMSIG(st);
      printf("X %s %d\n", sc.id.c_str(), status);
      fflush(stdout);
    }
  }
  return 0;
}
