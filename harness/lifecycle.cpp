// E1-style harness for C11 (actor lifecycle). One scenario per process, read from stdin:
//   hosts <n>
//   script <k> <host> <initial 0|1> <daemon 0|1> <killtime|-1> <autorestart 0|1> <onexit n>
//   <op> [args]            (ops of script k, one per line)
//   end
// Scripts are actor bodies; "initial" scripts are started from main() before Engine::run() (and configured from maestro:
// daemonize, set_kill_time, on_exit, set_auto_restart); the others are instantiated by "create k" ops.
// Every line of the boundary log starts with a kind and the simulated clock (%.17g):
//   C clk pid ppid k host        Actor::on_creation signal (k parsed from the actor name "s<k>")
//   T clk pid                    Actor::on_termination signal
//   B clk pid k daemon killtime  the body of an incarnation starts (is_daemon(), get_kill_time() as the API reports them)
//   Q clk pid op# name args..    just before an API call        R clk pid op# name result..   just after it returned
//   r clk pid op# suspend target rem   remaining flops of the exec the target waits for, read after suspend() returned (-1: none)
//   M clk pid op#                just before Exec::start() of an exec / execd op
//   X clk pid op# reason         op skipped by the harness (target never created / dead / self)
//   g clk pid cb                 on_exit registration about to be issued for pid      G clk pid cb   registration returned
//   E clk pid cb failed regpid   on_exit callback cb runs in actor pid (regpid = the actor it was registered for)
//   Z clk pid                    the body returns normally
//   DL clk                       Engine::on_deadlock            END clk    Engine::run() returned
//   ZB clk pid                   kernel monitor (verif::on_kernel_quiescent hook, reads private kernel state only): actor pid is
//                                marked to die, was not cleaned up and is not in the list of actors to run - nothing will ever
//                                schedule it again (logged once per actor, at the first quiescent point where this holds)
#include <simgrid/Exception.hpp>
#include <simgrid/s4u.hpp>
#include "src/kernel/EngineImpl.hpp"
#include "src/kernel/actor/ActorImpl.hpp"
#include "src/verif_hooks.hpp"
#include <algorithm>
#include <cstdio>
#include <iostream>
#include <map>
#include <set>
#include <sstream>
#include <vector>
namespace sg4 = simgrid::s4u;

struct Op {
  std::string name;
  std::vector<double> a;
};
struct Script {
  int host = 0, initial = 0, daemon = 0, autorestart = 0, onexit = 0;
  double killtime = -1;
  std::vector<Op> ops;
};
static std::vector<Script> scripts;
static std::vector<sg4::Host*> hosts;
static std::map<int, sg4::ActorPtr> latest;      // script -> most recent incarnation whose creation succeeded
static std::map<long, sg4::ExecPtr> cur_exec;    // pid -> started exec it is waiting for
static std::set<long> dead;                      // pids whose on_termination was seen
static long ncb           = 0;
static long executed_ops  = 0;
static const long BUDGET  = 600;
static double now() { return sg4::Engine::get_clock(); }

static std::set<long> zombies;
static void quiescent(int)
{
  auto* eng         = simgrid::kernel::EngineImpl::get_instance();
  const auto& torun = eng->get_actors_to_run();
  for (auto const& [pid, a] : eng->get_actor_list())
    if (a->wannadie() && not a->to_be_freed() && std::find(torun.begin(), torun.end(), a) == torun.end() &&
        zombies.insert(pid).second)
      printf("ZB %.17g %ld\n", now(), (long)pid);
}

static void reg_exit(const sg4::ActorPtr& who, bool from_self)
{
  long cb     = ncb++;
  long regpid = who->get_pid();
  printf("g %.17g %ld %ld\n", now(), regpid, cb);
  auto fun = [cb, regpid](bool failed) { printf("E %.17g %ld %ld %d %ld\n", now(), sg4::this_actor::get_pid(), cb, failed ? 1 : 0, regpid); };
  if (from_self)
    sg4::this_actor::on_exit(fun);
  else
    who->on_exit(fun);
  printf("G %.17g %ld %ld\n", now(), regpid, cb);
}

static double remaining_of(long pid)
{
  auto it = cur_exec.find(pid);
  if (it == cur_exec.end() || dead.count(pid))
    return -1;
  sg4::ExecPtr x = it->second; // own reference: the owner may finish its wait() and drop the Exec while our get_remaining() simcall is pending
  return x->get_remaining();
}

static void body(int k)
{
  sg4::ActorPtr self = sg4::Actor::self();
  long pid           = self->get_pid();
  latest[k]          = self;
  printf("B %.17g %ld %d %d %.17g\n", now(), pid, k, self->is_daemon() ? 1 : 0, self->get_kill_time());
  const auto& ops = scripts[k].ops;
  for (size_t i = 0; i < ops.size(); i++) {
    const Op& op = ops[i];
    if (++executed_ops > BUDGET) {
      printf("X %.17g %ld %zu budget\n", now(), pid, i);
      break;
    }
    const std::string& n = op.name;
    auto target          = [&](int idx) -> sg4::ActorPtr {
      int t   = (int)op.a[idx];
      auto it = latest.find(t);
      return it == latest.end() ? nullptr : it->second;
    };
    if (n == "sleep") {
      printf("Q %.17g %ld %zu sleep %.17g\n", now(), pid, i, op.a[0]);
      sg4::this_actor::sleep_for(op.a[0]);
      printf("R %.17g %ld %zu sleep\n", now(), pid, i);
    } else if (n == "yield") {
      printf("Q %.17g %ld %zu yield\n", now(), pid, i);
      sg4::this_actor::yield();
      printf("R %.17g %ld %zu yield\n", now(), pid, i);
    } else if (n == "exec" || n == "execd") {
      printf("Q %.17g %ld %zu %s %.17g %.17g\n", now(), pid, i, n.c_str(), op.a[0], n == "execd" ? op.a[1] : 0.0);
      sg4::ExecPtr x = sg4::this_actor::exec_init(op.a[0]);
      if (n == "execd")
        sg4::this_actor::sleep_for(op.a[1]);
      printf("M %.17g %ld %zu\n", now(), pid, i);
      x->start();
      cur_exec[pid] = x;
      x->wait();
      cur_exec.erase(pid);
      printf("R %.17g %ld %zu %s\n", now(), pid, i, n.c_str());
    } else if (n == "create") {
      int t = (int)op.a[0];
      printf("Q %.17g %ld %zu create %d %d\n", now(), pid, i, t, scripts[t].host);
      try {
        sg4::ActorPtr c = hosts[scripts[t].host]->add_actor("s" + std::to_string(t), [t]() { body(t); });
        latest[t]       = c;
        printf("R %.17g %ld %zu create %ld\n", now(), pid, i, c->get_pid());
      } catch (const simgrid::HostFailureException&) {
        printf("R %.17g %ld %zu create -1\n", now(), pid, i);
      }
    } else if (n == "kill") {
      auto t = target(0);
      if (t == nullptr || t.get() == self.get()) {
        printf("X %.17g %ld %zu notarget\n", now(), pid, i);
        continue;
      }
      printf("Q %.17g %ld %zu kill %ld\n", now(), pid, i, t->get_pid());
      t->kill();
      printf("R %.17g %ld %zu kill\n", now(), pid, i);
    } else if (n == "killall") {
      printf("Q %.17g %ld %zu killall\n", now(), pid, i);
      sg4::Actor::kill_all();
      printf("R %.17g %ld %zu killall\n", now(), pid, i);
    } else if (n == "join") {
      auto t = target(0);
      if (t == nullptr || t.get() == self.get()) {
        printf("X %.17g %ld %zu notarget\n", now(), pid, i);
        continue;
      }
      printf("Q %.17g %ld %zu join %ld %.17g\n", now(), pid, i, t->get_pid(), op.a[1]);
      if (op.a[1] < 0)
        t->join();
      else
        t->join(op.a[1]);
      printf("R %.17g %ld %zu join\n", now(), pid, i);
    } else if (n == "suspend") {
      auto t = target(0);
      if (t == nullptr || t.get() == self.get() || dead.count(t->get_pid())) {
        printf("X %.17g %ld %zu notarget\n", now(), pid, i);
        continue;
      }
      printf("Q %.17g %ld %zu suspend %ld\n", now(), pid, i, t->get_pid());
      t->suspend();
      printf("R %.17g %ld %zu suspend %ld\n", now(), pid, i, t->get_pid()); // at once: reading the remaining work may take a simcall
      double rem = remaining_of(t->get_pid());
      printf("r %.17g %ld %zu suspend %ld %.17g\n", now(), pid, i, t->get_pid(), rem);
    } else if (n == "resume") {
      auto t = target(0);
      if (t == nullptr || t.get() == self.get()) {
        printf("X %.17g %ld %zu notarget\n", now(), pid, i);
        continue;
      }
      double rem = remaining_of(t->get_pid());
      printf("Q %.17g %ld %zu resume %ld %.17g\n", now(), pid, i, t->get_pid(), rem);
      t->resume();
      printf("R %.17g %ld %zu resume\n", now(), pid, i);
    } else if (n == "suspendself") {
      printf("Q %.17g %ld %zu suspendself\n", now(), pid, i);
      sg4::this_actor::suspend();
      printf("R %.17g %ld %zu suspendself\n", now(), pid, i);
    } else if (n == "daemonize") {
      printf("Q %.17g %ld %zu daemonize\n", now(), pid, i);
      self->daemonize();
      printf("R %.17g %ld %zu daemonize\n", now(), pid, i);
    } else if (n == "killtime") {
      printf("Q %.17g %ld %zu killtime %.17g\n", now(), pid, i, op.a[0]);
      self->set_kill_time(op.a[0]);
      printf("R %.17g %ld %zu killtime %.17g\n", now(), pid, i, self->get_kill_time());
    } else if (n == "onexit") {
      for (int c = 0; c < (int)op.a[0]; c++)
        reg_exit(self, true);
    } else if (n == "autorestart") {
      printf("Q %.17g %ld %zu autorestart\n", now(), pid, i);
      self->set_auto_restart(true);
      printf("R %.17g %ld %zu autorestart\n", now(), pid, i);
    } else if (n == "exit") {
      printf("Q %.17g %ld %zu exit\n", now(), pid, i);
      sg4::this_actor::exit();
    } else if (n == "hostoff" || n == "hoston") {
      int h = (int)op.a[0];
      printf("Q %.17g %ld %zu %s %d %d\n", now(), pid, i, n.c_str(), h, hosts[h]->is_on() ? 1 : 0);
      if (n == "hostoff")
        hosts[h]->turn_off();
      else
        hosts[h]->turn_on();
      printf("R %.17g %ld %zu %s\n", now(), pid, i, n.c_str());
    } else {
      fprintf(stderr, "unknown op %s\n", n.c_str());
      abort();
    }
  }
  printf("Z %.17g %ld\n", now(), pid);
}

int main(int argc, char** argv)
{
  sg4::Engine e(&argc, argv);
  setvbuf(stdout, nullptr, _IOLBF, 0); // the history must survive an abort of the kernel
  std::string line;
  int nhosts = 2;
  int cur    = -1;
  while (std::getline(std::cin, line)) {
    std::istringstream is(line);
    std::string w;
    if (not(is >> w))
      continue;
    if (w == "hosts")
      is >> nhosts;
    else if (w == "script") {
      Script s;
      is >> cur >> s.host >> s.initial >> s.daemon >> s.killtime >> s.autorestart >> s.onexit;
      if ((int)scripts.size() <= cur)
        scripts.resize(cur + 1);
      scripts[cur] = s;
    } else if (w == "end")
      break;
    else {
      Op op;
      op.name = w;
      double v;
      while (is >> v)
        op.a.push_back(v);
      scripts[cur].ops.push_back(op);
    }
  }
  auto* zone = e.get_netzone_root()->add_netzone_full("z");
  for (int h = 0; h < nhosts; h++)
    hosts.push_back(zone->add_host("h" + std::to_string(h), 1e9));
  zone->seal();

  sg4::Actor::on_creation_cb([](sg4::Actor& a) {
    printf("C %.17g %ld %ld %s %s\n", now(), a.get_pid(), a.get_ppid(), a.get_cname() + 1, a.get_host()->get_cname() + 1);
  });
  sg4::Actor::on_termination_cb([](sg4::Actor const& a) {
    dead.insert(a.get_pid());
    printf("T %.17g %ld\n", now(), a.get_pid());
  });
  sg4::Engine::on_deadlock_cb([]() { printf("DL %.17g\n", now()); });
  simgrid::verif::on_kernel_quiescent = quiescent;

  for (size_t k = 0; k < scripts.size(); k++) {
    const Script& s = scripts[k];
    if (not s.initial)
      continue;
    int t           = (int)k;
    sg4::ActorPtr a = hosts[s.host]->add_actor("s" + std::to_string(k), [t]() { body(t); });
    latest[t]       = a;
    if (s.daemon) {
      a->daemonize();
      printf("R %.17g %ld -1 daemonize\n", now(), a->get_pid());
    }
    if (s.killtime >= 0) {
      a->set_kill_time(s.killtime);
      printf("R %.17g %ld -1 killtime %.17g\n", now(), a->get_pid(), a->get_kill_time());
    }
    for (int c = 0; c < s.onexit; c++)
      reg_exit(a, false);
    if (s.autorestart) {
      a->set_auto_restart(true);
      printf("R %.17g %ld -1 autorestart\n", now(), a->get_pid());
    }
  }
  e.run();
  printf("END %.17g\n", now());
  latest.clear();
  cur_exec.clear();
  return 0;
}
