// E2 harness: random histories on the real kernel::lmm::System, with monitors after every solve / modification.
// usage: lmm_fuzz <seed> <nhist> <limit(-1=none|k)> <solver> [dump]      env TRACE_H=<hist> prints that history
// A = selective-update system driven through the history; B = fresh non-selective system rebuilt at every solve.
// Lines: CAP|NEG|OVERBOUND|PEN0 <sys> h step ...   MISMATCH h step var a b   CONC kind h step ...   SYS/C/V/R dumps   SUM ...
#include "src/kernel/lmm/maxmin.hpp"
#include "simgrid/kernel/resource/Action.hpp"
#include "simgrid/kernel/resource/Model.hpp"
#include <cmath>
#include <cstdio>
#include <cstring>
#include <random>
using namespace simgrid::kernel;
struct DummyAction : public resource::Action {
  using resource::Action::Action;
  void update_remains_lazy(double) override {}
};
struct V {
  lmm::Variable* v;
  DummyAction* a;
  double pen, bound;
  std::vector<std::pair<int, double>> el;
};
static const double TOL = 1e-5;
int main(int argc, char** argv)
{
  unsigned seed      = argc > 1 ? atoi(argv[1]) : 1;
  int nhist          = argc > 2 ? atoi(argv[2]) : 200;
  int limit          = argc > 3 ? atoi(argv[3]) : -1;
  const char* solver = argc > 4 ? argv[4] : "maxmin";
  bool dump          = argc > 5;
  std::mt19937 rng(seed);
  auto U = [&](int n) { return (int)(rng() % n); };
  auto R = [&]() { return (rng() % 1000 + 1) / 100.0; };
  long solves = 0, mods = 0, nviol = 0, concchecks = 0, staged_seen = 0, vars_checked = 0, woken = 0;
  bool nofat = getenv("NOFAT") != nullptr;
  int trace_h = getenv("TRACE_H") ? atoi(getenv("TRACE_H")) : -1;
  for (int h = 0; h < nhist; h++) {
    resource::Model model("m" + std::to_string(h));
    lmm::System* s = lmm::System::build(solver, true);
    model.set_maxmin_system(s);
    int nc = 1 + U(5);
    std::vector<lmm::Constraint*> cs;
    std::vector<double> cb;
    std::vector<int> fat, lim;
    for (int i = 0; i < nc; i++) {
      cb.push_back(R());
      cs.push_back(s->constraint_new(nullptr, cb[i]));
      lim.push_back(-1);
      if (limit > 0 && U(4) != 0) {
        lim[i] = 1 + U(limit);
        cs[i]->set_concurrency_limit(lim[i]);
      }
      fat.push_back(nofat ? (U(5), 0) : U(5) == 0);
      if (fat[i])
        cs[i]->unshare();
    }
    std::vector<V> vs;
    bool tr = trace_h == h;
    if (tr)
      setvbuf(stdout, nullptr, _IONBF, 0);
    long h_solves = 0, h_multi = 0, h_staged0 = staged_seen;
    if (tr) {
      printf("T nc=%d:", nc);
      for (int i = 0; i < nc; i++)
        printf(" c%d=%g%s(lim %d)", i, cb[i], fat[i] ? "F" : "S", lim[i]);
      printf("\n");
    }
    auto conc_check = [&](int step, const char* after) {
      if (limit <= 0)
        return;
      concchecks++;
      for (int c = 0; c < nc; c++) {
        int cnt = 0;
        for (auto& x : vs)
          if (x.v->get_penalty() > 0)
            for (auto& e : x.el)
              if (e.first == c && e.second >= 1)
                cnt++;
        if (lim[c] >= 0 && cnt > lim[c]) {
          nviol++;
          printf("CONC overlimit %d %d cnst=%d enabled=%d limit=%d after=%s\n", h, step, c, cnt, lim[c], after);
        }
        if (cnt != cs[c]->concurrency_current_) {
          nviol++;
          printf("CONC counter %d %d cnst=%d enabled=%d counter=%d after=%s\n", h, step, c, cnt, cs[c]->concurrency_current_, after);
        }
      }
      for (auto& x : vs)
        if (x.pen > 0 && x.v->get_penalty() <= 0) { // wants to run but is held back
          staged_seen++;
          bool full = false;
          for (auto& e : x.el) {
            int c = e.first, cnt = 0;
            for (auto& y : vs)
              if (y.v->get_penalty() > 0)
                for (auto& e2 : y.el)
                  if (e2.first == c && e2.second >= 1)
                    cnt++;
            if (lim[c] >= 0 && cnt >= lim[c])
              full = true;
          }
          if (not full) {
            nviol++;
            printf("CONC starved %d %d after=%s\n", h, step, after);
          }
        }
    };
    for (int step = 0; step < 40; step++) {
      int op = U(10);
      if (op < 3 || vs.empty()) {
        V x;
        x.pen   = U(6) == 0 ? 0.0 : R();
        x.bound = U(3) == 0 ? R() : -1.0;
        x.a     = new DummyAction(&model, 1.0, false);
        x.v     = s->variable_new(x.a, x.pen, x.bound, nc);
        x.a->set_variable(x.v);
        int k = 1 + U(nc);
        for (int j = 0; j < k; j++) {
          int c    = U(nc);
          double w = U(4) == 0 ? 0.05 : (U(4) == 0 ? R() : 1.0);
          if (j > 0 && U(8) == 0)
            w = 0.0; /* a valid boundary input: the variable crosses the constraint without consuming anything there (what
                        ptask_L07 builds for the CPUs of communication-only parallel tasks); never the first element, so
                        that every variable consumes something somewhere */
          s->expand(cs[c], x.v, w);
          bool found = false;
          for (auto& e : x.el)
            if (e.first == c) {
              if (fat[c])
                e.second = std::max(e.second, w);
              else
                e.second += w;
              found = true;
            }
          if (!found)
            x.el.push_back({c, w});
        }
        vs.push_back(x);
        mods++;
        if (tr) {
          printf("T step %d: new var pen=%g bound=%g elems:", step, x.pen, x.bound);
          for (auto& e : x.el)
            printf(" c%d*%g", e.first, e.second);
          printf("\n");
        }
        conc_check(step, "new");
      } else if (op == 3) {
        int i = U(vs.size());
        if (tr)
          printf("T step %d: free var %d\n", step, i);
        s->variable_free(vs[i].v);
        vs[i].a->set_variable(nullptr);
        vs.erase(vs.begin() + i);
        mods++;
        conc_check(step, "free");
      } else if (op == 4) {
        int i = U(vs.size());
        bool was = vs[i].v->get_penalty() > 0;
        vs[i].pen = U(3) == 0 ? 0.0 : R();
        s->update_variable_penalty(vs[i].v, vs[i].pen);
        mods++;
        if (tr)
          printf("T step %d: var %d penalty=%g\n", step, i, vs[i].pen);
        conc_check(step, vs[i].pen == 0 ? (was ? "disable" : "penalty0") : "penalty");
      } else if (op == 5) {
        int i       = U(vs.size());
        vs[i].bound = U(3) == 0 ? -1.0 : R();
        s->update_variable_bound(vs[i].v, vs[i].bound);
        mods++;
        if (tr)
          printf("T step %d: var %d bound=%g\n", step, i, vs[i].bound);
      } else if (op == 6) {
        int c = U(nc);
        cb[c] = R();
        s->update_constraint_bound(cs[c], cb[c]);
        mods++;
        if (tr)
          printf("T step %d: cnst %d bound=%g\n", step, c, cb[c]);
      } else {
        s->solve();
        solves++;
        if (tr) {
          printf("T step %d: solve ->", step);
          for (auto& x : vs)
            printf(" %g", x.v->get_value());
          printf("\n");
        }
        auto check_sys = [&](const char* name, std::vector<double> const& val, std::vector<double> const& pen) {
          for (int c = 0; c < nc; c++) {
            double sum = 0, mx = 0;
            for (size_t i = 0; i < vs.size(); i++)
              for (auto& e : vs[i].el)
                if (e.first == c) {
                  sum += e.second * val[i];
                  mx = std::max(mx, e.second * val[i]);
                }
            double used = fat[c] ? mx : sum;
            if (used > cb[c] * (1 + TOL) + 1e-9) {
              nviol++;
              printf("CAP %s %d %d cnst=%d fat=%d used=%.10g bound=%.10g\n", name, h, step, c, fat[c], used, cb[c]);
            }
          }
          for (size_t i = 0; i < vs.size(); i++) {
            vars_checked++;
            if (val[i] < 0 || std::isnan(val[i])) {
              nviol++;
              printf("NEG %s %d %d var=%zu value=%g\n", name, h, step, i, val[i]);
            }
            if (vs[i].bound > 0 && val[i] > vs[i].bound * (1 + TOL) + 1e-9) {
              nviol++;
              printf("OVERBOUND %s %d %d var=%zu value=%.10g bound=%.10g\n", name, h, step, i, val[i], vs[i].bound);
            }
            if (pen[i] <= 0 && val[i] != 0) {
              nviol++;
              printf("PEN0 %s %d %d var=%zu value=%g\n", name, h, step, i, val[i]);
            }
          }
        };
        std::vector<double> va, pa;
        for (auto& x : vs) {
          va.push_back(x.v->get_value());
          pa.push_back(x.v->get_penalty());
        }
        check_sys("A", va, pa);
        h_solves++;
        { int pos = 0; for (double x : va) if (x > 0) pos++; if (pos >= 2) h_multi++; }
        conc_check(step, "solve");
        { /* fresh full system B. With concurrency limits, B has no limit and gets the enabled/staged state of A (the
             penalty A currently applies: 0 for a staged variable): "a fresh system holding the current activities" */
          lmm::System* b = lmm::System::build(solver, false);
          std::vector<lmm::Constraint*> bc;
          for (int c = 0; c < nc; c++) {
            bc.push_back(b->constraint_new(nullptr, cb[c]));
            if (fat[c])
              bc[c]->unshare();
          }
          std::vector<lmm::Variable*> bv;
          for (auto& x : vs) {
            auto* v = b->variable_new(nullptr, limit <= 0 ? x.pen : pa[bv.size()], x.bound, nc);
            for (auto& e : x.el)
              b->expand(bc[e.first], v, e.second);
            bv.push_back(v);
          }
          b->solve();
          std::vector<double> vb, pb;
          for (size_t i = 0; i < vs.size(); i++) {
            vb.push_back(bv[i]->get_value());
            pb.push_back(limit <= 0 ? vs[i].pen : pa[i]);
          }
          check_sys("B", vb, pb);
          for (size_t i = 0; i < vs.size(); i++)
            if (std::fabs(va[i] - vb[i]) > TOL * std::max(1.0, std::fabs(vb[i]))) {
              nviol++;
              printf("MISMATCH %d %d var=%zu selective=%.10g fresh=%.10g\n", h, step, i, va[i], vb[i]);
              break;
            }
          if (dump && limit <= 0) {
            printf("SYS %d %zu %d %d\n", nc, vs.size(), h, step);
            for (int c = 0; c < nc; c++)
              printf("C %.17g %d\n", cb[c], fat[c]);
            for (auto& x : vs) {
              std::vector<double> w(nc, 0.0);
              for (auto& e : x.el)
                w[e.first] = e.second;
              printf("V %.17g %.17g", x.pen, x.bound);
              for (int c = 0; c < nc; c++)
                printf(" %.17g", w[c]);
              printf("\n");
            }
            printf("R");
            for (double x : vb)
              printf(" %.17g", x);
            printf("\n");
          }
          for (auto* v : bv)
            b->variable_free(v);
          delete b;
        }
      }
    }
    for (auto& x : vs) {
      s->variable_free(x.v);
      x.a->set_variable(nullptr);
    }
    printf("H %d %ld %ld %ld\n", h, h_solves, h_multi, staged_seen - h_staged0);
    fflush(stdout);
  }
  printf("SUM seed=%u histories=%d solves=%ld mods=%ld viol=%ld concchecks=%ld staged_seen=%ld vars_checked=%ld\n", seed, nhist, solves, mods, nviol,
         concchecks, staged_seen, vars_checked);
  return 0;
}
