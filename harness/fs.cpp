// E1-style harness for C46: one actor executes a script of file operations on the real file-system plugin and prints,
// after every operation, "<op#> <ret> <size> <tell> <used>" (size/tell of the handle the op used; used = disk used size).
// stdin ops: "o h path" open | "w h n inside" | "r h n" | "s h off origin(0 set,1 cur,2 end)" | "m h newpath" | "u h" | "c h"
// first line printed: "INIT <used> <disk size>"
#include <simgrid/plugins/file_system.h>
#include <simgrid/s4u.hpp>
#include <cstdio>
#include <iostream>
#include <map>
#include <sstream>
#include <vector>
namespace sg4 = simgrid::s4u;
int main(int argc, char** argv)
{
  sg4::Engine e(&argc, argv);
  setvbuf(stdout, nullptr, _IOLBF, 0); // the log must survive an abort
  sg_storage_file_system_init();
  e.load_platform(argv[1]);
  std::vector<std::string> script;
  std::string line;
  while (std::getline(std::cin, line))
    if (not line.empty())
      script.push_back(line);
  auto* h = e.host_by_name("bob");
  auto* d = h->get_disks().front();
  h->add_actor("fs", [d, &script]() {
    std::map<int, sg4::File*> hs;
    printf("INIT %llu %llu\n", sg_disk_get_size_used(d), sg_disk_get_size(d));
    long n = 0;
    for (auto const& l : script) {
      std::istringstream is(l);
      std::string op;
      int hd;
      is >> op >> hd;
      long long ret = 0;
      if (op == "o") {
        std::string path;
        is >> path;
        hs[hd] = sg4::File::open(path, nullptr);
      } else if (op == "w") {
        unsigned long long sz;
        int inside;
        is >> sz >> inside;
        ret = (long long)hs[hd]->write(sz, inside != 0);
      } else if (op == "r") {
        unsigned long long sz;
        is >> sz;
        ret = (long long)hs[hd]->read(sz);
      } else if (op == "s") {
        long long off;
        int origin;
        is >> off >> origin;
        hs[hd]->seek(off, origin == 0 ? SEEK_SET : origin == 1 ? SEEK_CUR : SEEK_END);
      } else if (op == "m") {
        std::string path;
        is >> path;
        hs[hd]->move(path);
      } else if (op == "u") {
        ret = hs[hd]->unlink();
      } else if (op == "c") {
        hs[hd]->close();
        hs.erase(hd);
        printf("%ld 0 0 0 %llu\n", n++, sg_disk_get_size_used(d));
        continue;
      }
      printf("%ld %lld %llu %llu %llu\n", n++, ret, hs[hd]->size(), hs[hd]->tell(), sg_disk_get_size_used(d));
    }
    for (auto& [k, f] : hs)
      f->close();
  });
  e.run();
  printf("END %.9g\n", sg4::Engine::get_clock());
  return 0;
}
