// C39 / C43 checker side: a small model checker front-end built on the *real* checker-side classes of SimGrid
// (mc::RemoteApp / CheckerSide / deserialize_transition / Transition::dispatch_depends), linked with internal=True.
// It forks the application (harness/cm_app.cpp) exactly as simgrid-mc does, asks for the actors' status (with the pending
// transitions: model-check/debug is on), executes chosen transitions and snapshots / restores states by forking the
// application (RemoteApp::clone_checker_side / restore_checker_side).
//
// usage:  CM_MODE=walk VERIF_CM_LOG=<file> CM_SEED=<n> CM_WALKS=<n> CM_DEPTH=<n> CM_PAIRS=<n> cm_chk [--cfg=...] cm_app <spec>
//         CM_MODE=sym  cm_chk  < transition descriptions      (prints the dispatch_depends matrix)
//
// walk mode: CM_WALKS random walks from the initial state, at most CM_DEPTH transitions each. At every state reached, up
// to CM_PAIRS pairs of enabled transitions (aid1,times1) (aid2,times2) of different actors are tried in both orders from a
// snapshot of the state. Everything that happens is appended to $VERIF_CM_LOG (the application appends its own records to
// the same file: X = executed simcall as the application sees it, S = state fingerprint); all judging is done in Python.
//   W <k>                               walk k starts from the initial state
//   Q <n> | <aid> <enabled> <max_considered> [[ <fields> ## <to_string(true)> ## <current sub-transition> ]]* | ...
//                                       actors' status (after the app's S record)
//   P <aid1> <t1> <aid2> <t2>           pair test starts (state = the last Q outside a pair test)
//   B <1|2>                             branch starts from the snapshot
//   C <aid> <times> | <fields> | <to_string(true)>     transition executed, as decoded by the checker (after the app's X)
//   N <aid> <times>                     the second transition of the branch is not enabled after the first one
//   D <view>=<d><r> ...                 dispatch_depends answers: d = a.depends(b), r = b.depends(a);  views:
//                                         pend (pending descriptions at the state), sleep (t1 and t2 both executed from the
//                                         state: what sleep sets compare), o12 (t1 then t2 as executed in that order: what
//                                         race detection compares), o21
//   G <aid> <times>                     the walk advances by this transition (from the snapshot if pairs were tried)
//   E <message>                         harness-level error (exception of the checker classes, application died ...)
//   Z                                   normal end
#include "src/mc/api/ActorState.hpp"
#include "src/mc/api/RemoteApp.hpp"
#include "src/mc/explo/Exploration.hpp"
#include "src/mc/mc_config.hpp"
#include "src/mc/mc_exit.hpp"
#include "src/mc/remote/Channel.hpp"
#include "src/mc/remote/CheckerSide.hpp"
#include "src/mc/transition/Transition.hpp"
#include "src/mc/transition/TransitionActor.hpp"
#include "src/mc/transition/TransitionAny.hpp"
#include "src/mc/transition/TransitionComm.hpp"
#include "src/mc/transition/TransitionRandom.hpp"
#include "src/mc/transition/TransitionSynchro.hpp"
#include "src/simgrid/sg_config.hpp"
#include "xbt/log.h"
#include "xbt/log.hpp"
#if HAVE_SMPI
#include "smpi/smpi.h"
#endif

#include <cstdio>
#include <cstdlib>
#include <fcntl.h>
#include <iostream>
#include <random>
#include <sstream>
#include <string>
#include <unistd.h>

using namespace simgrid::mc;
using TT = Transition::Type;

static int log_fd = 1;
static void emit(const std::string& r)
{
  if (write(log_fd, r.c_str(), r.size()) < 0)
    perror("write log");
}
static std::string S(long v)
{
  return std::to_string(v);
}
static std::string esc(std::string s)
{
  for (auto& c : s)
    if (c == ' ' || c == '|' || c == '\n')
      c = '_';
  return s.empty() ? "-" : s;
}

// The decoded transition, field by field, in the format of cm_app's observer view
static std::string fields(const Transition* t)
{
  std::string n = Transition::to_c_str(t->type_);
  switch (t->type_) {
    case TT::RANDOM: {
      auto* r = static_cast<const RandomTransition*>(t);
      return n + " min=" + S(r->min_) + " max=" + S(r->max_);
    }
    case TT::ACTOR_JOIN: {
      auto* j = static_cast<const ActorJoinTransition*>(t);
      return n + " target=" + S(j->target_.c_val()) + " timeout=" + S(j->timeout_);
    }
    case TT::ACTOR_EXIT:
    case TT::ACTOR_SLEEP:
      return n;
    case TT::ACTOR_CREATE:
      return n + " child=" + S(static_cast<const ActorCreateTransition*>(t)->child_.c_val());
    case TT::MUTEX_ASYNC_LOCK:
    case TT::MUTEX_TEST:
    case TT::MUTEX_TRYLOCK:
    case TT::MUTEX_UNLOCK:
    case TT::MUTEX_WAIT: {
      auto* m = static_cast<const MutexTransition*>(t);
      return n + " mutex=" + S((long)m->mutex_) + " owner=" + S(m->owner_.c_val());
    }
    case TT::SEM_ASYNC_LOCK:
    case TT::SEM_UNLOCK:
    case TT::SEM_WAIT: {
      auto* s = static_cast<const SemaphoreTransition*>(t);
      return n + " sem=" + S(s->sem_) + " granted=" + S(s->granted_) + " capacity=" + S(s->capacity_);
    }
    case TT::BARRIER_ASYNC_LOCK:
    case TT::BARRIER_WAIT:
      return n + " bar=" + S(static_cast<const BarrierTransition*>(t)->bar_);
    case TT::CONDVAR_ASYNC_LOCK: {
      auto* c = static_cast<const CondvarTransition*>(t);
      return n + " cond=" + S(c->condvar_) + " mutex=" + S(c->mutex_);
    }
    case TT::CONDVAR_WAIT: {
      auto* c = static_cast<const CondvarTransition*>(t);
      return n + " cond=" + S(c->condvar_) + " mutex=" + S(c->mutex_) + " granted=" + S(c->granted_) + " timeout=" + S(c->timeout_);
    }
    case TT::CONDVAR_SIGNAL:
    case TT::CONDVAR_BROADCAST:
      return n + " cond=" + S(static_cast<const CondvarTransition*>(t)->condvar_);
    case TT::COMM_ASYNC_SEND: {
      auto* c = static_cast<const CommSendTransition*>(t);
      return n + " comm=" + S(c->comm_) + " mbox=" + S(c->mbox_) + " tag=" + S(c->tag_) + " loc=" + esc(t->get_call_location());
    }
    case TT::COMM_ASYNC_RECV: {
      auto* c = static_cast<const CommRecvTransition*>(t);
      return n + " comm=" + S(c->comm_) + " mbox=" + S(c->mbox_) + " tag=" + S(c->tag_) + " loc=" + esc(t->get_call_location());
    }
    case TT::COMM_IPROBE: {
      auto* c = static_cast<const CommIprobeTransition*>(t);
      return n + " mbox=" + S(c->mbox_) + " sender=" + S(c->is_sender_) + " tag=" + S(c->tag_);
    }
    case TT::COMM_TEST: {
      auto* c = static_cast<const CommTestTransition*>(t);
      return n + " comm=" + S(c->comm_) + " src=" + S(c->sender_.c_val()) + " dst=" + S(c->receiver_.c_val()) + " mbox=" +
             S(c->mbox_) + " loc=" + esc(t->get_call_location());
    }
    case TT::COMM_WAIT: {
      auto* c = static_cast<const CommWaitTransition*>(t);
      return n + " timeout=" + S(c->timeout_) + " comm=" + S(c->comm_) + " src=" + S(c->sender_.c_val()) +
             " dst=" + S(c->receiver_.c_val()) + " mbox=" + S(c->mbox_) + " loc=" + esc(t->get_call_location());
    }
    case TT::TESTANY: {
      auto* a       = static_cast<const TestAnyTransition*>(t);
      std::string r = n + " n=" + S(a->transitions_.size()) + " loc=" + esc(t->get_call_location());
      for (auto* s : a->transitions_)
        r += " { " + fields(s) + " }";
      return r;
    }
    case TT::WAITANY: {
      auto* a       = static_cast<const WaitAnyTransition*>(t);
      std::string r = n + " n=" + S(a->transitions_.size()) + " loc=" + esc(t->get_call_location());
      for (auto* s : a->transitions_)
        r += " { " + fields(s) + " }";
      return r;
    }
    default:
      return n;
  }
}

// The sub-transition that the checker considers to be the one acted upon (what dispatch_depends unwraps to)
static std::string current_of(const Transition* t)
{
  try {
    const Transition* cur = nullptr;
    if (t->type_ == TT::TESTANY)
      cur = static_cast<const TestAnyTransition*>(t)->get_current_transition();
    else if (t->type_ == TT::WAITANY)
      cur = static_cast<const WaitAnyTransition*>(t)->get_current_transition();
    else
      return "-";
    return cur == nullptr ? "NONE" : fields(cur);
  } catch (const std::exception& e) {
    return std::string("EXCEPTION ") + esc(e.what());
  }
  return "-";
}

static std::string dep2(const Transition* a, const Transition* b)
{
  if (a == nullptr || b == nullptr)
    return "-";
  std::string r;
  try {
    r += a->dispatch_depends(b) ? "1" : "0";
  } catch (const std::exception& e) {
    r += "x";
  }
  try {
    r += b->dispatch_depends(a) ? "1" : "0";
  } catch (const std::exception& e) {
    r += "x";
  }
  return r;
}

class DummyExploration : public Exploration {
public:
  void run() override {}
  RecordTrace get_record_trace() override { return RecordTrace(); }
};

struct Status {
  std::vector<std::optional<ActorState>> actors;
  std::vector<std::pair<int, int>> enabled; // (aid, times)
  bool is_enabled(int aid, int times) const
  {
    for (auto const& [a, t] : enabled)
      if (a == aid && t == times)
        return true;
    return false;
  }
  const Transition* pending(int aid, int times) const
  {
    if (aid < (int)actors.size() && actors[aid].has_value() && times < (int)actors[aid]->pending_transitions_.size())
      return actors[aid]->pending_transitions_[times].get();
    return nullptr;
  }
};

static Status get_status(RemoteApp& app)
{
  Status st;
  app.get_actors_status(st.actors);
  std::string r;
  int n = 0;
  for (auto const& a : st.actors) {
    if (not a.has_value())
      continue;
    n++;
    r += " | " + S(a->get_aid().c_val()) + " " + S(a->is_enabled()) + " " + S(a->get_max_considered());
    for (auto const& t : a->pending_transitions_)
      r += " [[ " + fields(t.get()) + " ## " + t->to_string(true) + " ## " + current_of(t.get()) + " ]]";
    if (a->is_enabled())
      for (int t = 0; t < a->get_max_considered(); t++)
        st.enabled.emplace_back(a->get_aid().c_val(), t);
  }
  emit("Q " + S(n) + r + "\n");
  return st;
}

static TransitionPtr execute(RemoteApp& app, int aid, int times)
{
  Transition* t = app.handle_simcall(Aid(aid), times, true);
  app.wait_for_requests();
  emit("C " + S(aid) + " " + S(times) + " | " + fields(t) + " | " + t->to_string(true) + " | " + current_of(t) + "\n");
  return TransitionPtr(t);
}

static int walk_mode(int argc, char** argv)
{
  const char* logp = getenv("VERIF_CM_LOG");
  if (logp != nullptr)
    log_fd = open(logp, O_WRONLY | O_APPEND | O_CREAT, 0644);
  auto envi = [](const char* n, long d) { return getenv(n) ? atol(getenv(n)) : d; };
  long seed = envi("CM_SEED", 1), walks = envi("CM_WALKS", 1), depth = envi("CM_DEPTH", 30), maxpairs = envi("CM_PAIRS", 4);
  std::mt19937_64 rng(seed);

  simgrid::mc::set_model_checking_mode(simgrid::mc::ModelCheckingMode::CHECKER_SIDE);
  std::vector<char*> argv_copy{argv, argv + argc + 1};
  xbt_log_init(&argc, argv);
#if HAVE_SMPI
  smpi_init_options();
#endif
  sg_config_init(&argc, argv);
  simgrid::s4u::Engine::set_config("model-check/debug:true"); // the actors' status carries the pending transitions

  DummyExploration explo;
  try {
    RemoteApp app(argv_copy);
    bool fresh = true;
    // snapshots stay alive until the walk is over: the checker sides cloned from them keep a pointer to them
    std::vector<std::unique_ptr<CheckerSide>> snaps;
    auto drop_snaps = [&snaps]() {
      for (auto it = snaps.rbegin(); it != snaps.rend(); ++it)
        (*it)->finalize(true);
      snaps.clear();
    };
    for (long w = 0; w < walks; w++) {
      if (not fresh)
        app.restore_checker_side(nullptr, true);
      drop_snaps();
      fresh = false;
      emit("W " + S(w) + "\n");
      for (long d = 0; d < depth; d++) {
        Status st = get_status(app);
        if (st.enabled.empty())
          break;
        // candidate pairs
        std::vector<std::pair<size_t, size_t>> pairs;
        for (size_t i = 0; i < st.enabled.size(); i++)
          for (size_t j = i + 1; j < st.enabled.size(); j++)
            if (st.enabled[i].first != st.enabled[j].first)
              pairs.emplace_back(i, j);
        for (size_t i = pairs.size(); i > 1; i--)
          std::swap(pairs[i - 1], pairs[rng() % i]);
        if ((long)pairs.size() > maxpairs)
          pairs.resize(maxpairs);
        CheckerSide* snap = nullptr;
        if (not pairs.empty()) {
          snaps.push_back(app.clone_checker_side());
          snap = snaps.back().get();
        }
        for (auto [i, j] : pairs) {
          auto [a1, t1] = st.enabled[i];
          auto [a2, t2] = st.enabled[j];
          if (rng() % 2)
            std::swap(a1, a2), std::swap(t1, t2);
          emit("P " + S(a1) + " " + S(t1) + " " + S(a2) + " " + S(t2) + "\n");
          TransitionPtr e1, e2, e1b, e2b; // e1,e2: executed from the state; e2b: t2 executed after t1; e1b: t1 after t2
          emit("B 1\n");
          app.restore_checker_side(snap, true);
          e1 = execute(app, a1, t1);
          if (get_status(app).is_enabled(a2, t2)) {
            e2b = execute(app, a2, t2);
            get_status(app);
          } else
            emit("N " + S(a2) + " " + S(t2) + "\n");
          emit("B 2\n");
          app.restore_checker_side(snap, true);
          e2 = execute(app, a2, t2);
          if (get_status(app).is_enabled(a1, t1)) {
            e1b = execute(app, a1, t1);
            get_status(app);
          } else
            emit("N " + S(a1) + " " + S(t1) + "\n");
          emit("D pend=" + dep2(st.pending(a1, t1), st.pending(a2, t2)) + " sleep=" + dep2(e1.get(), e2.get()) +
               " o12=" + dep2(e1.get(), e2b.get()) + " o21=" + dep2(e2.get(), e1b.get()) + "\n");
        }
        auto [a, t] = st.enabled[rng() % st.enabled.size()];
        emit("G " + S(a) + " " + S(t) + "\n");
        if (snap)
          app.restore_checker_side(snap, true);
        execute(app, a, t);
      }
    }
    app.finalize_app(true);
    drop_snaps();
  } catch (const McError& e) {
    emit("E McError " + S((int)e.value) + "\n");
    return 4;
  } catch (const McWarning& e) {
    emit("E McWarning " + S((int)e.value) + "\n");
    return 4;
  } catch (const std::exception& e) {
    emit(std::string("E exception ") + esc(e.what()) + "\n");
    return 4;
  }
  emit("Z\n");
  return 0;
}

// -------------------------------------------------------------------------------------------------------------------
// sym mode: real Transition objects from textual descriptions (same grammar as harness/mctrans.hpp, whose Packer this is a
// copy of):  <aid> <times_considered> <KIND> <args...>
namespace vt {
struct Packer {
  static Channel& tmp()
  {
    static Channel* c = new Channel;
    return *c;
  }
  static Channel& in()
  {
    static Channel* c = new Channel;
    return *c;
  }
  Packer() { tmp().buffer_out_size_ = 0; }
  template <class T> void p(T v) { tmp().pack<T>(v); }
  Transition* finish(int aid, int tc)
  {
    in().buffer_in_next_ = in().buffer_in_size_ = 0;
    in().reinject(tmp().buffer_out_, tmp().buffer_out_size_);
    tmp().buffer_out_size_ = 0;
    Transition* t          = deserialize_transition(Aid(aid), tc, in());
    if (in().buffer_in_size_ != 0) {
      fprintf(stderr, "HARNESS: %zu bytes of the serialised transition were not consumed\n", in().buffer_in_size_);
      exit(3);
    }
    return t;
  }
};
static long rd(std::istream& is)
{
  long v;
  if (!(is >> v)) {
    fprintf(stderr, "HARNESS: bad transition description (number expected)\n");
    exit(3);
  }
  return v;
}
static void pack_test(Packer& P, std::istream& is)
{
  P.p(TT::COMM_TEST);
  P.p((unsigned)rd(is));
  P.p((aid_t)rd(is));
  P.p((aid_t)rd(is));
  P.p((unsigned)rd(is));
  P.p(std::string("t"));
}
static void pack_wait(Packer& P, std::istream& is)
{
  P.p(TT::COMM_WAIT);
  P.p((bool)rd(is));
  P.p((unsigned)rd(is));
  P.p((aid_t)rd(is));
  P.p((aid_t)rd(is));
  P.p((unsigned)rd(is));
  P.p(std::string("w"));
}
static Transition* parse(std::istream& is)
{
  int aid = rd(is), tc = rd(is);
  std::string k;
  is >> k;
  Packer P;
  auto mutex = [&](TT t) { P.p(t); P.p((unsigned)rd(is)); P.p((aid_t)rd(is)); };
  auto sem   = [&](TT t) { P.p(t); P.p((unsigned)rd(is)); P.p((bool)rd(is)); P.p((int)rd(is)); };
  if (k == "ML") mutex(TT::MUTEX_ASYNC_LOCK);
  else if (k == "MW") mutex(TT::MUTEX_WAIT);
  else if (k == "MU") mutex(TT::MUTEX_UNLOCK);
  else if (k == "MT") mutex(TT::MUTEX_TRYLOCK);
  else if (k == "Mt") mutex(TT::MUTEX_TEST);
  else if (k == "SL") sem(TT::SEM_ASYNC_LOCK);
  else if (k == "SU") sem(TT::SEM_UNLOCK);
  else if (k == "SW") sem(TT::SEM_WAIT);
  else if (k == "BL") { P.p(TT::BARRIER_ASYNC_LOCK); P.p((unsigned)rd(is)); }
  else if (k == "BW") { P.p(TT::BARRIER_WAIT); P.p((unsigned)rd(is)); }
  else if (k == "CL") { P.p(TT::CONDVAR_ASYNC_LOCK); P.p((unsigned)rd(is)); P.p((unsigned)rd(is)); }
  else if (k == "CW") { P.p(TT::CONDVAR_WAIT); P.p((unsigned)rd(is)); P.p((unsigned)rd(is)); P.p((bool)rd(is)); P.p((bool)rd(is)); }
  else if (k == "CS") { P.p(TT::CONDVAR_SIGNAL); P.p((unsigned)rd(is)); }
  else if (k == "CB") { P.p(TT::CONDVAR_BROADCAST); P.p((unsigned)rd(is)); }
  else if (k == "RV" || k == "SD") {
    P.p(k == "RV" ? TT::COMM_ASYNC_RECV : TT::COMM_ASYNC_SEND);
    P.p((unsigned)rd(is)); P.p((unsigned)rd(is)); P.p((int)rd(is)); P.p(std::string("c"));
  }
  else if (k == "IP") { P.p(TT::COMM_IPROBE); P.p((unsigned)rd(is)); P.p((bool)rd(is)); P.p((int)rd(is)); }
  else if (k == "TS") pack_test(P, is);
  else if (k == "WT") pack_wait(P, is);
  else if (k == "AJ") { P.p(TT::ACTOR_JOIN); P.p((aid_t)rd(is)); P.p((bool)rd(is)); }
  else if (k == "AE") { P.p(TT::ACTOR_EXIT); }
  else if (k == "AS") { P.p(TT::ACTOR_SLEEP); }
  else if (k == "AC") { P.p(TT::ACTOR_CREATE); P.p((aid_t)rd(is)); }
  else if (k == "RN") { P.p(TT::RANDOM); P.p((int)rd(is)); P.p((int)rd(is)); }
  else if (k == "TA" || k == "WA") {
    P.p(k == "TA" ? TT::TESTANY : TT::WAITANY);
    unsigned n = rd(is);
    P.p(n);
    for (unsigned i = 0; i < n; i++) {
      if (k == "TA") pack_test(P, is); else pack_wait(P, is);
    }
    P.p(std::string("a"));
  } else {
    fprintf(stderr, "HARNESS: unknown transition kind '%s'\n", k.c_str());
    exit(3);
  }
  return P.finish(aid, tc);
}
} // namespace vt

// stdin: "G <id>" starts a group, then one transition description per line; "M" prints the matrix of the group:
//   "M <id> <n>" then n lines "R <i> <row of 0/1/x>"  (row[j] = t_i->dispatch_depends(t_j); x = exception)
static int sym_mode()
{
  setvbuf(stdout, nullptr, _IOFBF, 1 << 16);
  std::vector<Transition*> ts;
  std::string line, id = "-";
  while (std::getline(std::cin, line)) {
    if (line.empty())
      continue;
    if (line[0] == 'G') {
      for (auto* t : ts)
        delete t;
      ts.clear();
      id = line.size() > 2 ? line.substr(2) : "-";
    } else if (line[0] == 'M') {
      printf("M %s %zu\n", id.c_str(), ts.size());
      for (size_t i = 0; i < ts.size(); i++) {
        std::string row;
        for (size_t j = 0; j < ts.size(); j++) {
          try {
            row += ts[i]->dispatch_depends(ts[j]) ? '1' : '0';
          } catch (const std::exception&) {
            row += 'x';
          }
        }
        printf("R %zu %s\n", i, row.c_str());
      }
    } else {
      std::istringstream is(line);
      ts.push_back(vt::parse(is));
    }
  }
  printf("DONE\n");
  fflush(stdout);
  return 0;
}

int main(int argc, char** argv)
{
  const char* mode = getenv("CM_MODE");
  if (mode != nullptr && std::string(mode) == "sym")
    return sym_mode();
  return walk_mode(argc, argv);
}
