/* E5 harness for C28: interpreter of generated point-to-point programs.
 * argv[1] = case file (written by lib/verif/gen/p2p.py):
 *   NP n
 *   NCOMM k                         communicator 0 is MPI_COMM_WORLD
 *   COMM i DUP                      (dup of world)
 *   COMM i SPLIT c0 k0 c1 k1 ...    colour/key per world rank (colour -1 = MPI_UNDEFINED)
 *   PROG r nops                     followed by nops lines "code nargs a0 a1 ..."
 * Every rank interprets its own program and prints one record per observed event; Python (oracles/p2p.py) decides.
 *   r <rank> <op> <api> <rcclass> <src> <tag> <count> <st_err_class> <crc> <first4> <guardok> <cap> <wlen> <wfirst4> <wcrc>   a receive completed
 *   p <rank> <op> <kind> <flag> <src> <tag> <count>                                                   (I)probe answer
 *   e <rank> <op> <what> <rcclass>                                                                    unexpected error code
 *   DONE <rank>
 */
#include <mpi.h>
#include <signal.h>
#include <stdint.h>
#include <stdio.h>
#include <stdlib.h>
#include <string.h>
#include <unistd.h>

#define MAXARG 40
#define GUARD 64
#define GFILL 0xA5
typedef struct {
  int code, n, a[MAXARG];
} op_t;
typedef struct {
  int isrecv, op, cap;
  unsigned char* buf;
} slot_t;

static int g_rank = -1, g_op = -1;
static void on_sig(int s)
{
  char b[120];
  int n = snprintf(b, sizeof b, "CRASH sig=%d rank=%d op=%d\n", s, g_rank, g_op);
  if (write(1, b, n) < 0) {
  }
  _exit(70);
}
/* polling loops (Iprobe/Test*) never end when the awaited message is never matched: bound them (20000 polls are > 10^4 simulated
 * seconds with the growing injected sleeps, the programs need a few seconds at most) */
static long g_spin;
#define SPIN_RESET() (g_spin = 0)
#define SPIN_CHECK()                                                                                                   \
  do {                                                                                                                 \
    if (++g_spin > 20000) {                                                                                            \
      printf("STUCK %d %d\n", g_rank, g_op);                                                                           \
      MPI_Abort(MPI_COMM_WORLD, 5);                                                                                    \
    }                                                                                                                  \
  } while (0)
static uint32_t crctab[256];
static void crcinit(void)
{
  for (uint32_t i = 0; i < 256; i++) {
    uint32_t c = i;
    for (int k = 0; k < 8; k++)
      c = (c & 1) ? 0xEDB88320u ^ (c >> 1) : c >> 1;
    crctab[i] = c;
  }
}
static uint32_t crc32b(const unsigned char* p, long n)
{
  uint32_t c = 0xFFFFFFFFu;
  for (long i = 0; i < n; i++)
    c = crctab[(c ^ p[i]) & 0xff] ^ (c >> 8);
  return c ^ 0xFFFFFFFFu;
}
static void fill(unsigned char* b, int len, int mid)
{
  for (int i = 0; i < len; i++)
    b[i] = i < 4 ? (unsigned char)((mid >> (8 * i)) & 0xff) : (unsigned char)((i + mid * 17 + (i >> 8)) & 0xff);
}
static int eclass(int rc)
{
  int c = rc;
  if (rc != MPI_SUCCESS)
    MPI_Error_class(rc, &c);
  return c;
}
static unsigned char* newbuf(int cap)
{
  unsigned char* b = malloc((size_t)cap + GUARD);
  memset(b, GFILL, (size_t)cap + GUARD);
  return b;
}
static void logrecv(int op, int api, int rc, const MPI_Status* st, const unsigned char* buf, int cap)
{
  int count = -1;
  MPI_Get_count(st, MPI_BYTE, &count);
  int n = count < 0 ? 0 : (count > cap ? cap : count);
  uint32_t first = 0;
  for (int i = 0; i < 4 && i < n; i++)
    first |= (uint32_t)buf[i] << (8 * i);
  int guard = 1;
  for (int i = 0; i < GUARD; i++)
    if (buf[cap + i] != GFILL)
      guard = 0;
  /* bytes after the received count inside the buffer must be untouched as well */
  for (int i = n; i < cap; i++)
    if (buf[i] != GFILL) {
      guard = 0;
      break;
    }
  /* what the buffer itself shows, whatever the status says: apparent written length, its first 4 bytes and CRC */
  int wlen = cap;
  while (wlen > 0 && buf[wlen - 1] == GFILL)
    wlen--;
  uint32_t wfirst = 0;
  for (int i = 0; i < 4 && i < wlen; i++)
    wfirst |= (uint32_t)buf[i] << (8 * i);
  printf("r %d %d %d %d %d %d %d %d %u %u %d %d %d %u %u\n", g_rank, op, api, eclass(rc), st->MPI_SOURCE, st->MPI_TAG, count,
         eclass(st->MPI_ERROR), crc32b(buf, n), first, guard, cap, wlen, wfirst, crc32b(buf, wlen));
}

int main(int argc, char** argv)
{
  MPI_Init(&argc, &argv);
  setvbuf(stdout, NULL, _IOLBF, 0);
  signal(SIGFPE, on_sig);
  signal(SIGSEGV, on_sig);
  crcinit();
  int wn;
  MPI_Comm_rank(MPI_COMM_WORLD, &g_rank);
  MPI_Comm_size(MPI_COMM_WORLD, &wn);
  FILE* f = fopen(argv[1], "r");
  if (!f) {
    printf("HARNESS cannot open %s\n", argv[1]);
    MPI_Abort(MPI_COMM_WORLD, 3);
  }
  char w[32];
  int np = 0, ncomm = 0;
  if (fscanf(f, "%31s %d %31s %d", w, &np, w, &ncomm) != 4 || np != wn) {
    printf("HARNESS bad header np=%d wn=%d\n", np, wn);
    MPI_Abort(MPI_COMM_WORLD, 3);
  }
  MPI_Comm* comms = calloc(ncomm, sizeof(MPI_Comm));
  comms[0]        = MPI_COMM_WORLD;
  for (int i = 1; i < ncomm; i++) {
    int idx;
    if (fscanf(f, "%31s %d %31s", w, &idx, w) != 3)
      MPI_Abort(MPI_COMM_WORLD, 3);
    if (!strcmp(w, "DUP")) {
      MPI_Comm_dup(MPI_COMM_WORLD, &comms[i]);
    } else {
      int col = 0, key = 0;
      for (int r = 0; r < np; r++) {
        int c, k;
        if (fscanf(f, "%d %d", &c, &k) != 2)
          MPI_Abort(MPI_COMM_WORLD, 3);
        if (r == g_rank) {
          col = c;
          key = k;
        }
      }
      MPI_Comm_split(MPI_COMM_WORLD, col < 0 ? MPI_UNDEFINED : col, key, &comms[i]);
    }
  }
  for (int i = 0; i < ncomm; i++)
    if (comms[i] != MPI_COMM_NULL)
      MPI_Comm_set_errhandler(comms[i], MPI_ERRORS_RETURN);
  op_t* ops = NULL;
  int nops  = 0;
  for (int r = 0; r < np; r++) {
    int rr, n;
    if (fscanf(f, "%31s %d %d", w, &rr, &n) != 3)
      MPI_Abort(MPI_COMM_WORLD, 3);
    op_t* mine = rr == g_rank ? calloc(n > 0 ? n : 1, sizeof(op_t)) : NULL;
    for (int i = 0; i < n; i++) {
      op_t o;
      if (fscanf(f, "%d %d", &o.code, &o.n) != 2 || o.n > MAXARG)
        MPI_Abort(MPI_COMM_WORLD, 3);
      for (int k = 0; k < o.n; k++)
        if (fscanf(f, "%d", &o.a[k]) != 1)
          MPI_Abort(MPI_COMM_WORLD, 3);
      if (mine)
        mine[i] = o;
    }
    if (mine) {
      ops  = mine;
      nops = n;
    }
  }
  fclose(f);
  int bsz     = 1 << 24;
  void* bsbuf = malloc(bsz);
  MPI_Buffer_attach(bsbuf, bsz);
  int nslots     = nops + 2;
  MPI_Request* q = malloc(sizeof(MPI_Request) * nslots);
  slot_t* sl     = calloc(nslots, sizeof(slot_t));
  for (int i = 0; i < nslots; i++)
    q[i] = MPI_REQUEST_NULL;
  MPI_Status pst; /* last probe answer */
  memset(&pst, 0, sizeof pst);
  int pcount = 0;
  if (g_rank == 0)
    printf("H %d %d %d %d %d %d\n", MPI_SUCCESS, MPI_ERR_TRUNCATE, MPI_ERR_IN_STATUS, MPI_PROC_NULL, MPI_ANY_TAG, MPI_ANY_SOURCE);
  MPI_Barrier(MPI_COMM_WORLD);
  for (int i = 0; i < nops; i++) {
    g_op        = i;
    const int* a = ops[i].a;
    switch (ops[i].code) {
      case 1: { /* SEND kind comm dest tag len mid slot */
        int kind = a[0], dest = a[2] == -3 ? MPI_PROC_NULL : a[2], tag = a[3], len = a[4], mid = a[5], s = a[6];
        MPI_Comm c       = comms[a[1]];
        unsigned char* b = malloc(len > 0 ? len : 1);
        fill(b, len, mid);
        int rc = MPI_SUCCESS;
        switch (kind) {
          case 0: rc = MPI_Send(b, len, MPI_BYTE, dest, tag, c); break;
          case 1: rc = MPI_Ssend(b, len, MPI_BYTE, dest, tag, c); break;
          case 2: rc = MPI_Bsend(b, len, MPI_BYTE, dest, tag, c); break;
          case 3: rc = MPI_Isend(b, len, MPI_BYTE, dest, tag, c, &q[s]); break;
          case 4: rc = MPI_Issend(b, len, MPI_BYTE, dest, tag, c, &q[s]); break;
          case 5: rc = MPI_Ibsend(b, len, MPI_BYTE, dest, tag, c, &q[s]); break;
        }
        if (rc != MPI_SUCCESS)
          printf("e %d %d send%d %d\n", g_rank, i, kind, eclass(rc));
        break;
      }
      case 2: { /* RECV kind comm src tag cap slot */
        int kind = a[0], src = a[2], tag = a[3], cap = a[4], s = a[5];
        MPI_Comm c = comms[a[1]];
        src        = src == -1 ? MPI_ANY_SOURCE : src == -2 ? pst.MPI_SOURCE : src == -3 ? MPI_PROC_NULL : src;
        tag        = tag == -1 ? MPI_ANY_TAG : tag == -2 ? pst.MPI_TAG : tag;
        if (cap == -2)
          cap = pcount;
        unsigned char* b = newbuf(cap);
        if (kind == 0) {
          MPI_Status st;
          memset(&st, 0x7f, sizeof st);
          st.MPI_ERROR = MPI_SUCCESS;
          int rc       = MPI_Recv(b, cap, MPI_BYTE, src, tag, c, &st);
          logrecv(i, 0, rc, &st, b, cap);
        } else {
          int rc = MPI_Irecv(b, cap, MPI_BYTE, src, tag, c, &q[s]);
          if (rc != MPI_SUCCESS)
            printf("e %d %d irecv %d\n", g_rank, i, eclass(rc));
          sl[s].isrecv = 1;
          sl[s].op     = i;
          sl[s].cap    = cap;
          sl[s].buf    = b;
        }
        break;
      }
      case 3: { /* SENDRECV comm dest stag slen mid src rtag cap */
        MPI_Comm c = comms[a[0]];
        int dest = a[1] == -3 ? MPI_PROC_NULL : a[1], len = a[3], mid = a[4], cap = a[7];
        int src = a[5] == -1 ? MPI_ANY_SOURCE : a[5] == -3 ? MPI_PROC_NULL : a[5], rtag = a[6] == -1 ? MPI_ANY_TAG : a[6];
        unsigned char* sb = malloc(len > 0 ? len : 1);
        fill(sb, len, mid);
        unsigned char* rb = newbuf(cap);
        MPI_Status st;
        memset(&st, 0x7f, sizeof st);
        st.MPI_ERROR = MPI_SUCCESS;
        int rc       = MPI_Sendrecv(sb, len, MPI_BYTE, dest, a[2], rb, cap, MPI_BYTE, src, rtag, c, &st);
        logrecv(i, 9, rc, &st, rb, cap);
        break;
      }
      case 4: { /* PROBE kind comm src tag */
        int kind = a[0], src = a[2] == -1 ? MPI_ANY_SOURCE : a[2], tag = a[3] == -1 ? MPI_ANY_TAG : a[3];
        MPI_Comm c = comms[a[1]];
        int flag = 0, rc = MPI_SUCCESS;
        memset(&pst, 0x7f, sizeof pst);
        if (kind == 0) {
          rc   = MPI_Probe(src, tag, c, &pst);
          flag = 1;
        } else if (kind == 1) {
          SPIN_RESET();
          while (!flag && rc == MPI_SUCCESS) {
            rc = MPI_Iprobe(src, tag, c, &flag, &pst);
            SPIN_CHECK();
          }
        } else
          rc = MPI_Iprobe(src, tag, c, &flag, &pst);
        if (rc != MPI_SUCCESS)
          printf("e %d %d probe%d %d\n", g_rank, i, kind, eclass(rc));
        pcount = 0;
        if (flag)
          MPI_Get_count(&pst, MPI_BYTE, &pcount);
        printf("p %d %d %d %d %d %d %d\n", g_rank, i, kind, flag, flag ? pst.MPI_SOURCE : 0, flag ? pst.MPI_TAG : 0, pcount);
        break;
      }
      case 5: { /* COMPLETE api n slots... */
        int api = a[0], n = a[1];
        const int* s     = a + 2;
        MPI_Request* lq  = malloc(sizeof(MPI_Request) * (n + 1));
        MPI_Status* lst  = malloc(sizeof(MPI_Status) * (n + 1));
        int* idx         = malloc(sizeof(int) * (n + 1));
        int* done        = calloc(n + 1, sizeof(int));
        for (int k = 0; k < n; k++) {
          lq[k] = q[s[k]];
          memset(&lst[k], 0x7f, sizeof(MPI_Status));
          lst[k].MPI_ERROR = MPI_SUCCESS;
        }
        int rc = MPI_SUCCESS, flag = 0, ndone = 0;
        switch (api) {
          case 1: /* Wait each, in the given order */
            for (int k = 0; k < n; k++) {
              rc = MPI_Wait(&lq[k], &lst[k]);
              if (sl[s[k]].isrecv)
                logrecv(sl[s[k]].op, 1, rc, &lst[k], sl[s[k]].buf, sl[s[k]].cap);
              else if (rc != MPI_SUCCESS)
                printf("e %d %d wait %d\n", g_rank, i, eclass(rc));
            }
            break;
          case 4: /* Test loop each */
            for (int k = 0; k < n; k++) {
              flag = 0;
              SPIN_RESET();
              while (!flag) {
                rc = MPI_Test(&lq[k], &flag, &lst[k]);
                SPIN_CHECK();
              }
              if (sl[s[k]].isrecv)
                logrecv(sl[s[k]].op, 4, rc, &lst[k], sl[s[k]].buf, sl[s[k]].cap);
              else if (rc != MPI_SUCCESS)
                printf("e %d %d test %d\n", g_rank, i, eclass(rc));
            }
            break;
          case 2: /* Waitall */
          case 5: /* Testall loop */
            if (api == 2)
              rc = MPI_Waitall(n, lq, lst);
            else {
              flag = 0;
              SPIN_RESET();
              while (!flag) {
                rc = MPI_Testall(n, lq, &flag, lst);
                SPIN_CHECK();
              }
            }
            for (int k = 0; k < n; k++)
              if (sl[s[k]].isrecv)
                logrecv(sl[s[k]].op, api, rc, &lst[k], sl[s[k]].buf, sl[s[k]].cap);
            if (rc != MPI_SUCCESS && eclass(rc) != MPI_ERR_IN_STATUS)
              printf("e %d %d waitall %d\n", g_rank, i, eclass(rc));
            break;
          case 3: /* Waitany loop */
          case 6: /* Testany loop */
            for (int it = 0; it < n; it++) {
              int ix = MPI_UNDEFINED;
              MPI_Status st;
              memset(&st, 0x7f, sizeof st);
              st.MPI_ERROR = MPI_SUCCESS;
              if (api == 3)
                rc = MPI_Waitany(n, lq, &ix, &st);
              else {
                flag = 0;
                SPIN_RESET();
                while (!flag) {
                  rc = MPI_Testany(n, lq, &ix, &flag, &st);
                  SPIN_CHECK();
                }
              }
              if (ix == MPI_UNDEFINED)
                break;
              if (ix < 0 || ix >= n || done[ix]) {
                printf("e %d %d anyindex %d\n", g_rank, i, ix);
                break;
              }
              done[ix] = 1;
              if (sl[s[ix]].isrecv)
                logrecv(sl[s[ix]].op, api, rc, &st, sl[s[ix]].buf, sl[s[ix]].cap);
            }
            break;
          case 7: /* Waitsome loop */
          case 8: /* Testsome loop */
            SPIN_RESET();
            while (ndone < n) {
              int oc = 0;
              SPIN_CHECK();
              for (int k = 0; k < n; k++)
                lst[k].MPI_ERROR = MPI_SUCCESS;
              rc = api == 7 ? MPI_Waitsome(n, lq, &oc, idx, lst) : MPI_Testsome(n, lq, &oc, idx, lst);
              if (oc == MPI_UNDEFINED)
                break;
              for (int k = 0; k < oc; k++) {
                int ix = idx[k];
                if (ix < 0 || ix >= n || done[ix]) {
                  printf("e %d %d someindex %d\n", g_rank, i, ix);
                  ndone = n;
                  break;
                }
                done[ix] = 1;
                ndone++;
                if (sl[s[ix]].isrecv)
                  logrecv(sl[s[ix]].op, api, rc, &lst[k], sl[s[ix]].buf, sl[s[ix]].cap);
              }
            }
            break;
        }
        for (int k = 0; k < n; k++)
          q[s[k]] = MPI_REQUEST_NULL; /* every request of the set was completed above */
        free(lq);
        free(lst);
        free(idx);
        free(done);
        break;
      }
      case 6:
        usleep(a[0]);
        break;
      case 7:
        MPI_Barrier(MPI_COMM_WORLD);
        break;
    }
  }
  g_op = nops;
  MPI_Barrier(MPI_COMM_WORLD);
  printf("DONE %d\n", g_rank);
  void* bb;
  int bs;
  MPI_Buffer_detach(&bb, &bs);
  MPI_Finalize();
  return 0;
}
