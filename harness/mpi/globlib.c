/* C36 harness, static library libverifglob.a: a library with its own state, linked statically into the MPI program
 * (what the SMPI documentation recommends for libraries with globals) */
#include "globals_shared.h"
int vl_counter = 1000;
static long vl_table_var[VL_TABLE_N];
long* vl_table(void)
{
  return vl_table_var;
}
double* vl_local_static(void)
{
  static double d = 1.25;
  return &d;
}
int vl_bump(void)
{
  return ++vl_counter;
}
int vl_pristine(void)
{
  if (vl_counter != 1000 || *vl_local_static() != 1.25)
    return 0;
  for (int i = 0; i < VL_TABLE_N; i++)
    if (vl_table_var[i] != 0)
      return 0;
  return 1;
}
