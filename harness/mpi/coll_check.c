/* E5 harness for C29: every collective of SMPI against the definition of the MPI standard.
 *
 * argv: <casefile> [sync] [rev]
 *   casefile  one case per line:  idx coll mode root pat c dt op vseed late
 *     coll  bcast reduce allreduce allgather allgatherv alltoall alltoallv alltoallw gather gatherv scatter scatterv
 *           reduce_scatter reduce_scatter_block scan barrier
 *     mode  b = blocking, ip = blocking with MPI_IN_PLACE (where MPI defines it), nb = I<coll> + MPI_Wait,
 *           nb2 = two outstanding I<coll> on distinct buffers, waited for in reverse order,
 *           nn = blocking, arguments that are "significant only at root" are NULL on the other ranks
 *     root  root rank (rooted collectives), late rank for barrier, ignored otherwise
 *     pat   count/displacement pattern of the v-collectives: units 0 uniform, 1 varying (with zeros), 2 sparse;
 *           tens 0 packed in rank order, 1 one-item gaps and reverse order
 *     c     count (or base count of the pattern)
 *     dt    int dbl vec 2int dblint    (vec = MPI_Type_vector(2,1,2,MPI_INT): 2 ints, a 4-byte hole, extent 12)
 *     op    none sum prod max min bxor maxloc minloc user   (user = commutative associative user-defined operator)
 *     vseed data seed
 *     late  rank that enters the collective 200 simulated microseconds after the others (-1: nobody)
 *   sync      a hand-written point-to-point barrier separates the cases (used by the driver to attribute a crash)
 *   rev       run on a communicator with reversed rank order instead of MPI_COMM_WORLD
 *   flip=<i>  oracle self-test: the last rank flips one bit of the expected image of the receive buffer of case <i>
 *
 * Every rank builds its send and receive buffers between two 64-byte guard zones, filled with 0xA5, builds the expected
 * image of every buffer from the definition of the collective (every rank can compute every other rank's contribution),
 * calls the collective, and compares whole images byte by byte:
 *   BAD <idx> rank=<r> kind=<wrong-result|stray-write|guard|sendbuf-modified|rc|barrier> ...
 * A signal handler prints "CRASH sig=<n> cur=<case index each rank is in>" (the array is shared by all ranks, which live
 * in one process). Each rank ends with "DONE rank=<r> cases=<n> bytes=<compared> bad=<n>". */
#include <mpi.h>
#include <signal.h>
#include <stdio.h>
#include <stdlib.h>
#include <string.h>
#include <unistd.h>

#define GUARD 64
#define FILL 0xA5
#define UP 1000003LL

enum { K_INT, K_DBL, K_VEC, K_2INT, K_DBLINT };
enum { O_NONE, O_SUM, O_PROD, O_MAX, O_MIN, O_BXOR, O_MAXLOC, O_MINLOC, O_USER };
typedef struct {
  long long a;
  int loc;
} Val;
typedef struct {
  int kind;
  MPI_Datatype t;
  int lpi;  /* logical basic elements per item */
  long ext; /* extent in bytes */
} DT;
typedef struct {
  int idx;
  char coll[24], mode[8], dts[8], ops[8];
  int root, pat, c, late;
  unsigned vseed;
  int opk;
  DT dt;
} Case;
typedef struct {
  unsigned char *raw, *body, *exp, *sig;
  long bytes;
  int loose;  /* bytes of the body that the definition does not mention are not judged (in-place reduce_scatter) */
  int nonsig; /* the whole buffer is "significant only at root" and this rank is not the root */
} Buf;
typedef struct {
  Buf s, r;
  int *scnt, *sdsp, *rcnt, *rdsp;
  MPI_Datatype *stypes, *rtypes;
  MPI_Request req;
  int rc;
} Slot;

static int me = -1, np = 0;
static MPI_Comm comm;
static MPI_Datatype vec_t;
static MPI_Op user_op;
static volatile int* g_cur = NULL; /* shared by all ranks: index of the case each rank is executing */
static long n_bad = 0, n_badlines = 0, n_bytes = 0;

static void on_sig(int s)
{
  char buf[600];
  int n = snprintf(buf, sizeof buf, "CRASH sig=%d cur=", s);
  signal(SIGSEGV, SIG_DFL);
  signal(SIGFPE, SIG_DFL);
  signal(SIGABRT, SIG_DFL);
  signal(SIGBUS, SIG_DFL);
  for (int i = 0; g_cur && i < np && n < 560; i++)
    n += snprintf(buf + n, sizeof buf - n, "%s%d", i ? "," : "", g_cur[i]);
  buf[n++] = '\n';
  if (write(1, buf, n) < 0) {
  }
  _exit(70 + (s & 63));
}

static unsigned long long mix(unsigned long long x)
{
  x += 0x9E3779B97F4A7C15ULL;
  x = (x ^ (x >> 30)) * 0xBF58476D1CE4E5B9ULL;
  x = (x ^ (x >> 27)) * 0x94D049BB133111EBULL;
  return x ^ (x >> 31);
}

/* contribution of rank src (addressed to dst when that matters) at logical position k */
static Val inval(const Case* c, unsigned vseed, int src, int dst, long k)
{
  unsigned long long h = mix(mix(vseed * 0x100000001B3ULL + src) ^ (((unsigned long long)dst + 1) << 40) ^ (unsigned long long)k);
  static const int prods[8] = {1, 1, 2, -1, 1, 3, 1, -2};
  Val v = {0, 0};
  switch (c->opk) {
    case O_NONE: v.a = (long long)(h & 0x3fffffff); break;
    case O_SUM: v.a = (long long)(h % 1001) - 500; break;
    case O_PROD: v.a = prods[h % 8]; break;
    case O_MAX:
    case O_MIN: v.a = (long long)(h % 2001) - 1000; break;
    case O_BXOR: v.a = (long long)(h & 0x7fffffff); break;
    case O_MAXLOC:
    case O_MINLOC:
      v.a   = (long long)(h % 4);
      v.loc = (int)((h >> 8) % 50);
      break;
    case O_USER: v.a = (long long)(h % UP); break;
  }
  return v;
}
static long long user_f(long long a, long long b)
{
  long long x = ((1 + a) % UP) * ((1 + b) % UP) % UP;
  return (x + UP - 1) % UP;
}
static Val combine(int opk, Val x, Val y)
{
  Val r = x;
  switch (opk) {
    case O_SUM: r.a = x.a + y.a; break;
    case O_PROD: r.a = x.a * y.a; break;
    case O_MAX: r.a = x.a > y.a ? x.a : y.a; break;
    case O_MIN: r.a = x.a < y.a ? x.a : y.a; break;
    case O_BXOR: r.a = x.a ^ y.a; break;
    case O_MAXLOC:
      if (y.a > x.a || (y.a == x.a && y.loc < x.loc))
        r = y;
      break;
    case O_MINLOC:
      if (y.a < x.a || (y.a == x.a && y.loc < x.loc))
        r = y;
      break;
    case O_USER: r.a = user_f(x.a, y.a); break;
    default: break;
  }
  return r;
}
/* MPI definition of a reduction over ranks lo..hi (inclusive) at logical position k */
static Val reduced(const Case* c, unsigned vseed, int lo, int hi, long k)
{
  Val acc = inval(c, vseed, lo, 0, k);
  for (int r = lo + 1; r <= hi; r++)
    acc = combine(c->opk, acc, inval(c, vseed, r, 0, k));
  return acc;
}
static int g_user_vec = 0; /* the case being run reduces vec items */
static void user_fn(void* in, void* inout, int* len, MPI_Datatype* dt)
{
  int* a = (int*)in;
  int* b = (int*)inout;
  (void)dt;
  if (g_user_vec) {
    for (int i = 0; i < *len; i++) {
      b[3 * i]     = (int)user_f(a[3 * i], b[3 * i]);
      b[3 * i + 2] = (int)user_f(a[3 * i + 2], b[3 * i + 2]);
    }
  } else {
    for (int i = 0; i < *len; i++)
      b[i] = (int)user_f(a[i], b[i]);
  }
}

/* ---- buffers ---- */
static long el_off(const DT* d, long k)
{
  return d->kind == K_VEC ? (k / 2) * 12 + (k % 2) * 8 : k * d->ext;
}
/* Send buffers are pre-filled with another byte than receive buffers, so that an algorithm that copies whole extents
 * (holes, gaps between blocks) from a send buffer into a receive buffer is seen. */
#define SFILL 0x5A
static void balloc_fill(Buf* b, long bytes, int fill);
static void balloc(Buf* b, long bytes)
{
  balloc_fill(b, bytes, FILL);
}
static void salloc(Buf* b, long bytes)
{
  balloc_fill(b, bytes, SFILL);
}
static void balloc_fill(Buf* b, long bytes, int fill)
{
  b->bytes = bytes;
  b->raw   = (unsigned char*)malloc(bytes + 2 * GUARD);
  b->exp   = (unsigned char*)malloc(bytes + 2 * GUARD);
  b->sig   = (unsigned char*)calloc(bytes + 2 * GUARD, 1);
  if (!b->raw || !b->exp || !b->sig) {
    printf("HARNESS out of memory\n");
    _exit(99);
  }
  memset(b->raw, fill, bytes + 2 * GUARD);
  memset(b->exp, fill, bytes + 2 * GUARD);
  b->body = b->raw + GUARD;
}
static void bfree(Buf* b)
{
  free(b->raw);
  free(b->exp);
  free(b->sig);
  memset(b, 0, sizeof *b);
}
static void enc(unsigned char* p, const DT* d, Val v)
{
  switch (d->kind) {
    case K_INT:
    case K_VEC: {
      int x = (int)v.a;
      memcpy(p, &x, 4);
      break;
    }
    case K_DBL: {
      double x = (double)v.a;
      memcpy(p, &x, 8);
      break;
    }
    case K_2INT: {
      int x[2] = {(int)v.a, v.loc};
      memcpy(p, x, 8);
      break;
    }
    case K_DBLINT: {
      double x = (double)v.a;
      memcpy(p, &x, 8);
      memcpy(p + 8, &v.loc, 4);
      break;
    }
  }
}
static int el_size(const DT* d)
{
  return d->kind == K_DBL || d->kind == K_2INT ? 8 : d->kind == K_DBLINT ? 12 : 4;
}
/* where: 1 = actual buffer, 2 = expected image (marks the bytes significant), 3 = both (input data) */
static void bput(Buf* b, const DT* d, long byteoff, long k, Val v, int where)
{
  long o = GUARD + byteoff + el_off(d, k);
  if (byteoff + el_off(d, k) + el_size(d) > b->bytes) {
    printf("HARNESS buffer model overflow off=%ld bytes=%ld\n", byteoff + el_off(d, k), b->bytes);
    _exit(99);
  }
  if (where & 1)
    enc(b->raw + o, d, v);
  if (where & 2) {
    enc(b->exp + o, d, v);
    if (where == 2)
      memset(b->sig + o, 1, el_size(d));
  }
}
static void hex8(const unsigned char* p, long avail, char* out)
{
  int n = avail < 8 ? (int)avail : 8;
  for (int i = 0; i < n; i++)
    sprintf(out + 2 * i, "%02x", p[i]);
  out[2 * n] = 0;
}
/* byte-by-byte comparison of a buffer (guards included) with its expected image */
static void bcheck(const Case* c, Buf* b, const char* which, int is_send, const DT* d)
{
  if (!b->raw)
    return;
  long tot = b->bytes + 2 * GUARD;
  if (d->kind == K_DBLINT) /* the 4 padding bytes of {double,int} are not part of the type map: not judged */
    for (long o = 0; o + 16 <= b->bytes; o += 16)
      memcpy(b->raw + GUARD + o + 12, b->exp + GUARD + o + 12, 4);
  if (b->loose)
    for (long p = GUARD; p < GUARD + b->bytes; p++)
      if (!b->sig[p])
        b->raw[p] = b->exp[p];
  n_bytes += tot;
  if (memcmp(b->raw, b->exp, tot) == 0)
    return;
  long first[3] = {-1, -1, -1}, cnt[3] = {0, 0, 0}; /* 0 wrong-result, 1 stray-write, 2 guard */
  for (long p = 0; p < tot; p++)
    if (b->raw[p] != b->exp[p]) {
      int k = (p < GUARD || p >= GUARD + b->bytes) ? 2 : b->sig[p] ? 0 : 1;
      if (first[k] < 0)
        first[k] = p;
      cnt[k]++;
    }
  static const char* names[3] = {"wrong-result", "stray-write", "guard"};
  for (int k = 0; k < 3; k++)
    if (cnt[k]) {
      n_bad++;
      if (n_badlines++ < 40) {
        char g[20], e[20];
        hex8(b->raw + first[k], tot - first[k], g);
        hex8(b->exp + first[k], tot - first[k], e);
        printf("BAD %d rank=%d kind=%s buf=%s off=%ld got=%s exp=%s nbytes=%ld of=%ld\n", c->idx, me,
               is_send ? "sendbuf-modified" : (k == 1 && b->nonsig) ? "nonroot-write" : names[k], which, first[k] - GUARD, g, e, cnt[k], b->bytes);
      } else /* after 40 detailed lines per rank only the verdict */
        printf("BAD %d rank=%d kind=%s\n", c->idx, me, is_send ? "sendbuf-modified" : (k == 1 && b->nonsig) ? "nonroot-write" : names[k]);
    }
}

/* ---- count patterns ---- */
static int cnt1(const Case* c, int i)
{
  switch (c->pat % 10) {
    case 0: return c->c;
    case 1: return (i * 7 + c->c) % (c->c + 2);
    default: return i == c->c % np ? c->c + 1 : 0;
  }
}
static int cnt2(const Case* c, int s, int d)
{
  switch (c->pat % 10) {
    case 0: return c->c;
    case 1: return (s * 3 + d * 5 + c->c) % (c->c + 2);
    default: return (s + d) % np == c->c % np ? c->c + 1 : 0;
  }
}
/* displacements (in items) of np blocks of cnt[i] items; returns the total span in items */
static long mkdisp(const Case* c, const int* cnt, int* dsp)
{
  long at = 0;
  if (c->pat / 10 == 0) {
    for (int i = 0; i < np; i++) {
      dsp[i] = (int)at;
      at += cnt[i];
    }
  } else {
    at = 1;
    for (int i = np - 1; i >= 0; i--) {
      dsp[i] = (int)at;
      at += cnt[i] + 1;
    }
  }
  return at;
}
static int is(const Case* c, const char* name)
{
  return strcmp(c->coll, name) == 0;
}
static int mode_is(const Case* c, const char* m)
{
  return strcmp(c->mode, m) == 0;
}
static void fill_block(const Case* c, Buf* b, long itemoff, int items, unsigned vseed, int src, int dst, long kbase, int where)
{
  for (long k = 0; k < (long)items * c->dt.lpi; k++)
    bput(b, &c->dt, itemoff * c->dt.ext, k, inval(c, vseed, src, dst, kbase + k), where);
}
static void fill_reduced(const Case* c, Buf* b, long itemoff, int items, unsigned vseed, int lo, int hi, long kbase)
{
  for (long k = 0; k < (long)items * c->dt.lpi; k++)
    bput(b, &c->dt, itemoff * c->dt.ext, k, reduced(c, vseed, lo, hi, kbase + k), 2);
}

/* alltoallw: block s->d carries L = 2*cnt2 ints; each side independently describes it as ints or as vec items */
static int w_send_vec(int s, int d)
{
  return (s + d) & 1;
}
static int w_recv_vec(int s, int d)
{
  return (s + 2 * d) % 3 == 0;
}

static DT DT_INT_ = {K_INT, 0, 1, 4};

/* Builds the buffers and the expected images of one instance of the case. */
static void prepare(const Case* c, Slot* S, unsigned vseed)
{
  const DT* d = &c->dt;
  int ip      = mode_is(c, "ip");
  int root    = c->root;
  int n       = c->c;
  memset(S, 0, sizeof *S);
  S->req = MPI_REQUEST_NULL;
  if (is(c, "bcast")) {
    balloc(&S->r, n * d->ext);
    fill_block(c, &S->r, 0, n, vseed, root, 0, 0, me == root ? 3 : 2);
  } else if (is(c, "gather") || is(c, "allgather")) {
    int isroot = is(c, "allgather") || me == root;
    if (!(ip && isroot)) {
      salloc(&S->s, n * d->ext);
      fill_block(c, &S->s, 0, n, vseed, me, 0, 0, 3);
    }
    balloc(&S->r, (long)np * n * d->ext);
    S->r.nonsig = !isroot;
    if (isroot) {
      for (int r = 0; r < np; r++)
        fill_block(c, &S->r, (long)r * n, n, vseed, r, 0, 0, (ip && r == me) ? 3 : 2);
    }
  } else if (is(c, "gatherv") || is(c, "allgatherv")) {
    int isroot = is(c, "allgatherv") || me == root;
    S->rcnt    = (int*)malloc(sizeof(int) * np);
    S->rdsp    = (int*)malloc(sizeof(int) * np);
    for (int i = 0; i < np; i++)
      S->rcnt[i] = cnt1(c, i);
    long span = mkdisp(c, S->rcnt, S->rdsp);
    if (!(ip && isroot)) {
      salloc(&S->s, S->rcnt[me] * d->ext);
      fill_block(c, &S->s, 0, S->rcnt[me], vseed, me, 0, 0, 3);
    }
    balloc(&S->r, span * d->ext);
    S->r.nonsig = !isroot;
    if (isroot)
      for (int r = 0; r < np; r++)
        fill_block(c, &S->r, S->rdsp[r], S->rcnt[r], vseed, r, 0, 0, (ip && r == me) ? 3 : 2);
  } else if (is(c, "scatter")) {
    if (me == root) {
      salloc(&S->s, (long)np * n * d->ext);
      for (int r = 0; r < np; r++)
        fill_block(c, &S->s, (long)r * n, n, vseed, root, r, 0, 3);
    }
    if (!(ip && me == root)) {
      balloc(&S->r, n * d->ext);
      fill_block(c, &S->r, 0, n, vseed, root, me, 0, 2);
    }
  } else if (is(c, "scatterv")) {
    S->scnt = (int*)malloc(sizeof(int) * np);
    S->sdsp = (int*)malloc(sizeof(int) * np);
    for (int i = 0; i < np; i++)
      S->scnt[i] = cnt1(c, i);
    long span = mkdisp(c, S->scnt, S->sdsp);
    if (me == root) {
      salloc(&S->s, span * d->ext);
      for (int r = 0; r < np; r++)
        fill_block(c, &S->s, S->sdsp[r], S->scnt[r], vseed, root, r, 0, 3);
    }
    if (!(ip && me == root)) {
      balloc(&S->r, S->scnt[me] * d->ext);
      fill_block(c, &S->r, 0, S->scnt[me], vseed, root, me, 0, 2);
    }
  } else if (is(c, "alltoall")) {
    balloc(&S->r, (long)np * n * d->ext);
    if (!ip) {
      salloc(&S->s, (long)np * n * d->ext);
      for (int r = 0; r < np; r++)
        fill_block(c, &S->s, (long)r * n, n, vseed, me, r, 0, 3);
    } else {
      for (int r = 0; r < np; r++)
        fill_block(c, &S->r, (long)r * n, n, vseed, me, r, 0, 1);
    }
    for (int r = 0; r < np; r++)
      fill_block(c, &S->r, (long)r * n, n, vseed, r, me, 0, 2);
  } else if (is(c, "alltoallv")) {
    S->scnt = (int*)malloc(sizeof(int) * np);
    S->sdsp = (int*)malloc(sizeof(int) * np);
    S->rcnt = (int*)malloc(sizeof(int) * np);
    S->rdsp = (int*)malloc(sizeof(int) * np);
    for (int i = 0; i < np; i++) {
      S->scnt[i] = cnt2(c, me, i);
      S->rcnt[i] = cnt2(c, i, me);
    }
    long sspan = mkdisp(c, S->scnt, S->sdsp);
    long rspan = mkdisp(c, S->rcnt, S->rdsp);
    salloc(&S->s, sspan * d->ext);
    balloc(&S->r, rspan * d->ext);
    for (int r = 0; r < np; r++) {
      fill_block(c, &S->s, S->sdsp[r], S->scnt[r], vseed, me, r, 0, 3);
      fill_block(c, &S->r, S->rdsp[r], S->rcnt[r], vseed, r, me, 0, 2);
    }
  } else if (is(c, "alltoallw")) {
    S->scnt   = (int*)malloc(sizeof(int) * np);
    S->sdsp   = (int*)malloc(sizeof(int) * np);
    S->rcnt   = (int*)malloc(sizeof(int) * np);
    S->rdsp   = (int*)malloc(sizeof(int) * np);
    S->stypes = (MPI_Datatype*)malloc(sizeof(MPI_Datatype) * np);
    S->rtypes = (MPI_Datatype*)malloc(sizeof(MPI_Datatype) * np);
    long sat = 4, rat = 4; /* byte displacements, 4-byte gaps */
    for (int i = 0; i < np; i++) {
      int Ls = 2 * cnt2(c, me, i), Lr = 2 * cnt2(c, i, me);
      S->stypes[i] = w_send_vec(me, i) ? vec_t : MPI_INT;
      S->scnt[i]   = w_send_vec(me, i) ? Ls / 2 : Ls;
      S->sdsp[i]   = (int)sat;
      sat += (w_send_vec(me, i) ? (Ls / 2) * 12 : Ls * 4) + 4;
      S->rtypes[i] = w_recv_vec(i, me) ? vec_t : MPI_INT;
      S->rcnt[i]   = w_recv_vec(i, me) ? Lr / 2 : Lr;
      S->rdsp[i]   = (int)rat;
      rat += (w_recv_vec(i, me) ? (Lr / 2) * 12 : Lr * 4) + 4;
    }
    salloc(&S->s, sat);
    balloc(&S->r, rat);
    DT dv = {K_VEC, vec_t, 2, 12};
    for (int i = 0; i < np; i++) {
      int Ls = 2 * cnt2(c, me, i), Lr = 2 * cnt2(c, i, me);
      for (long k = 0; k < Ls; k++)
        bput(&S->s, w_send_vec(me, i) ? &dv : &DT_INT_, S->sdsp[i], k, inval(c, vseed, me, i, k), 3);
      for (long k = 0; k < Lr; k++)
        bput(&S->r, w_recv_vec(i, me) ? &dv : &DT_INT_, S->rdsp[i], k, inval(c, vseed, i, me, k), 2);
    }
  } else if (is(c, "reduce") || is(c, "allreduce") || is(c, "scan")) {
    int isroot = !is(c, "reduce") || me == root;
    balloc(&S->r, n * d->ext);
    S->r.nonsig = !isroot;
    if (ip && isroot)
      fill_block(c, &S->r, 0, n, vseed, me, 0, 0, 1);
    else {
      salloc(&S->s, n * d->ext);
      fill_block(c, &S->s, 0, n, vseed, me, 0, 0, 3);
    }
    if (isroot)
      fill_reduced(c, &S->r, 0, n, vseed, 0, is(c, "scan") ? me : np - 1, 0);
  } else if (is(c, "reduce_scatter") || is(c, "reduce_scatter_block")) {
    S->rcnt = (int*)malloc(sizeof(int) * np);
    S->rdsp = (int*)malloc(sizeof(int) * np);
    Case cu = *c;
    if (is(c, "reduce_scatter_block"))
      cu.pat = 0;
    long tot = 0;
    for (int i = 0; i < np; i++) {
      S->rcnt[i] = cnt1(&cu, i);
      S->rdsp[i] = (int)tot;
      tot += S->rcnt[i];
    }
    if (ip) {
      balloc(&S->r, tot * d->ext);
      fill_block(c, &S->r, 0, (int)tot, vseed, me, 0, 0, 1);
      /* MPI: the input is taken from the receive buffer, the result lands at its start; the rest is not defined */
      memcpy(S->r.exp, S->r.raw, S->r.bytes + 2 * GUARD);
      S->r.loose = 1;
    } else {
      salloc(&S->s, tot * d->ext);
      fill_block(c, &S->s, 0, (int)tot, vseed, me, 0, 0, 3);
      balloc(&S->r, S->rcnt[me] * d->ext);
    }
    fill_reduced(c, &S->r, 0, S->rcnt[me], vseed, 0, np - 1, (long)S->rdsp[me] * d->lpi);
  }
}

static void start(const Case* c, Slot* S)
{
  const DT* d  = &c->dt;
  MPI_Datatype t = d->t;
  int ip = mode_is(c, "ip"), nb = mode_is(c, "nb") || mode_is(c, "nb2"), nn = mode_is(c, "nn");
  int root = c->root, n = c->c, rc = MPI_SUCCESS;
  void* sb = S->s.raw ? S->s.body : NULL;
  void* rb = S->r.raw ? S->r.body : NULL;
  MPI_Op op = c->opk == O_SUM ? MPI_SUM : c->opk == O_PROD ? MPI_PROD : c->opk == O_MAX ? MPI_MAX : c->opk == O_MIN ? MPI_MIN
              : c->opk == O_BXOR ? MPI_BXOR : c->opk == O_MAXLOC ? MPI_MAXLOC : c->opk == O_MINLOC ? MPI_MINLOC : user_op;
  MPI_Request* q = &S->req;
  if (is(c, "bcast")) {
    rc = nb ? MPI_Ibcast(rb, n, t, root, comm, q) : MPI_Bcast(rb, n, t, root, comm);
  } else if (is(c, "gather")) {
    if (ip && me == root)
      sb = MPI_IN_PLACE;
    if (nn && me != root)
      rb = NULL;
    rc = nb ? MPI_Igather(sb, n, t, rb, n, t, root, comm, q) : MPI_Gather(sb, n, t, rb, n, t, root, comm);
  } else if (is(c, "gatherv")) {
    int *rc_ = S->rcnt, *rd_ = S->rdsp;
    if (ip && me == root)
      sb = MPI_IN_PLACE;
    if (nn && me != root) {
      rb  = NULL;
      rc_ = NULL;
      rd_ = NULL;
    }
    rc = nb ? MPI_Igatherv(sb, S->rcnt[me], t, rb, rc_, rd_, t, root, comm, q)
            : MPI_Gatherv(sb, S->rcnt[me], t, rb, rc_, rd_, t, root, comm);
  } else if (is(c, "allgather")) {
    if (ip)
      sb = MPI_IN_PLACE;
    rc = nb ? MPI_Iallgather(sb, n, t, rb, n, t, comm, q) : MPI_Allgather(sb, n, t, rb, n, t, comm);
  } else if (is(c, "allgatherv")) {
    if (ip)
      sb = MPI_IN_PLACE;
    rc = nb ? MPI_Iallgatherv(sb, S->rcnt[me], t, rb, S->rcnt, S->rdsp, t, comm, q)
            : MPI_Allgatherv(sb, S->rcnt[me], t, rb, S->rcnt, S->rdsp, t, comm);
  } else if (is(c, "scatter")) {
    if (ip && me == root)
      rb = MPI_IN_PLACE;
    if (nn && me != root)
      sb = NULL;
    rc = nb ? MPI_Iscatter(sb, n, t, rb, n, t, root, comm, q) : MPI_Scatter(sb, n, t, rb, n, t, root, comm);
  } else if (is(c, "scatterv")) {
    int *sc_ = S->scnt, *sd_ = S->sdsp;
    if (ip && me == root)
      rb = MPI_IN_PLACE;
    if (nn && me != root) {
      sb  = NULL;
      sc_ = NULL;
      sd_ = NULL;
    }
    rc = nb ? MPI_Iscatterv(sb, sc_, sd_, t, rb, S->scnt[me], t, root, comm, q)
            : MPI_Scatterv(sb, sc_, sd_, t, rb, S->scnt[me], t, root, comm);
  } else if (is(c, "alltoall")) {
    if (ip)
      sb = MPI_IN_PLACE;
    rc = nb ? MPI_Ialltoall(sb, n, t, rb, n, t, comm, q) : MPI_Alltoall(sb, n, t, rb, n, t, comm);
  } else if (is(c, "alltoallv")) {
    rc = nb ? MPI_Ialltoallv(sb, S->scnt, S->sdsp, t, rb, S->rcnt, S->rdsp, t, comm, q)
            : MPI_Alltoallv(sb, S->scnt, S->sdsp, t, rb, S->rcnt, S->rdsp, t, comm);
  } else if (is(c, "alltoallw")) {
    rc = nb ? MPI_Ialltoallw(sb, S->scnt, S->sdsp, S->stypes, rb, S->rcnt, S->rdsp, S->rtypes, comm, q)
            : MPI_Alltoallw(sb, S->scnt, S->sdsp, S->stypes, rb, S->rcnt, S->rdsp, S->rtypes, comm);
  } else if (is(c, "reduce")) {
    if (ip && me == root)
      sb = MPI_IN_PLACE;
    if (nn && me != root)
      rb = NULL;
    rc = nb ? MPI_Ireduce(sb, rb, n, t, op, root, comm, q) : MPI_Reduce(sb, rb, n, t, op, root, comm);
  } else if (is(c, "allreduce")) {
    if (ip)
      sb = MPI_IN_PLACE;
    rc = nb ? MPI_Iallreduce(sb, rb, n, t, op, comm, q) : MPI_Allreduce(sb, rb, n, t, op, comm);
  } else if (is(c, "scan")) {
    if (ip)
      sb = MPI_IN_PLACE;
    rc = nb ? MPI_Iscan(sb, rb, n, t, op, comm, q) : MPI_Scan(sb, rb, n, t, op, comm);
  } else if (is(c, "reduce_scatter")) {
    if (ip)
      sb = MPI_IN_PLACE;
    rc = nb ? MPI_Ireduce_scatter(sb, rb, S->rcnt, t, op, comm, q) : MPI_Reduce_scatter(sb, rb, S->rcnt, t, op, comm);
  } else if (is(c, "reduce_scatter_block")) {
    if (ip)
      sb = MPI_IN_PLACE;
    rc = nb ? MPI_Ireduce_scatter_block(sb, rb, n, t, op, comm, q) : MPI_Reduce_scatter_block(sb, rb, n, t, op, comm);
  }
  S->rc = rc;
}

static void finish(const Case* c, Slot* S)
{
  if (S->rc == MPI_SUCCESS && S->req != MPI_REQUEST_NULL)
    S->rc = MPI_Wait(&S->req, MPI_STATUS_IGNORE);
  if (S->rc != MPI_SUCCESS) {
    n_bad++;
    n_badlines++;
    printf("BAD %d rank=%d kind=rc code=%d\n", c->idx, me, S->rc);
  } else {
    bcheck(c, &S->s, "send", 1, &c->dt);
    bcheck(c, &S->r, "recv", 0, &c->dt);
  }
  bfree(&S->s);
  bfree(&S->r);
  free(S->scnt);
  free(S->sdsp);
  free(S->rcnt);
  free(S->rdsp);
  free(S->stypes);
  free(S->rtypes);
}

/* point-to-point barrier that does not use any collective algorithm */
static void p2p_sync(void)
{
  int tok = 0;
  if (me == 0) {
    for (int r = 1; r < np; r++)
      MPI_Recv(&tok, 1, MPI_INT, r, 4242, comm, MPI_STATUS_IGNORE);
    for (int r = 1; r < np; r++)
      MPI_Send(&tok, 1, MPI_INT, r, 4243, comm);
  } else {
    MPI_Send(&tok, 1, MPI_INT, 0, 4242, comm);
    MPI_Recv(&tok, 1, MPI_INT, 0, 4243, comm, MPI_STATUS_IGNORE);
  }
}

/* MPI_Barrier: no rank may leave before the last one has entered (simulated clock) */
static void barrier_case(const Case* c)
{
  int nb = mode_is(c, "nb");
  p2p_sync();
  if (me == c->root)
    usleep(1000 + 10 * c->c);
  double t[2];
  t[0]   = MPI_Wtime();
  int rc = MPI_SUCCESS;
  if (nb) {
    MPI_Request q;
    rc = MPI_Ibarrier(comm, &q);
    if (rc == MPI_SUCCESS)
      rc = MPI_Wait(&q, MPI_STATUS_IGNORE);
  } else
    rc = MPI_Barrier(comm);
  t[1] = MPI_Wtime();
  if (rc != MPI_SUCCESS) {
    n_bad++;
    printf("BAD %d rank=%d kind=rc code=%d\n", c->idx, me, rc);
  }
  if (me == 0) {
    double maxin = t[0], minout = t[1];
    int who = 0;
    for (int r = 1; r < np; r++) {
      double o[2];
      MPI_Recv(o, 2, MPI_DOUBLE, r, 4244, comm, MPI_STATUS_IGNORE);
      if (o[0] > maxin)
        maxin = o[0];
      if (o[1] < minout) {
        minout = o[1];
        who    = r;
      }
    }
    n_bytes += 16 * np;
    if (minout < maxin - 1e-9) {
      n_bad++;
      printf("BAD %d rank=%d kind=barrier left_at=%.9f last_entered_at=%.9f\n", c->idx, who, minout, maxin);
    }
  } else
    MPI_Send(t, 2, MPI_DOUBLE, 0, 4244, comm);
}

static int parse_case(char* line, Case* c)
{
  memset(c, 0, sizeof *c);
  if (sscanf(line, "%d %23s %7s %d %d %d %7s %7s %u %d", &c->idx, c->coll, c->mode, &c->root, &c->pat, &c->c, c->dts, c->ops,
             &c->vseed, &c->late) != 10)
    return 0;
  static const char* on[] = {"none", "sum", "prod", "max", "min", "bxor", "maxloc", "minloc", "user"};
  c->opk = -1;
  for (int i = 0; i < 9; i++)
    if (!strcmp(c->ops, on[i]))
      c->opk = i;
  DT d;
  if (!strcmp(c->dts, "int"))
    d = (DT){K_INT, MPI_INT, 1, 4};
  else if (!strcmp(c->dts, "dbl"))
    d = (DT){K_DBL, MPI_DOUBLE, 1, 8};
  else if (!strcmp(c->dts, "vec"))
    d = (DT){K_VEC, vec_t, 2, 12};
  else if (!strcmp(c->dts, "2int"))
    d = (DT){K_2INT, MPI_2INT, 1, 8};
  else if (!strcmp(c->dts, "dblint"))
    d = (DT){K_DBLINT, MPI_DOUBLE_INT, 1, 16};
  else
    return 0;
  c->dt = d;
  return c->opk >= 0 && c->root >= 0 && c->root < np && c->c >= 0;
}

int main(int argc, char** argv)
{
  MPI_Init(&argc, &argv);
  setvbuf(stdout, NULL, _IOLBF, 0);
  int sync = 0, rev = 0, flip = -1;
  for (int i = 2; i < argc; i++) {
    if (!strncmp(argv[i], "flip=", 5))
      flip = atoi(argv[i] + 5);
    if (!strcmp(argv[i], "sync"))
      sync = 1;
    if (!strcmp(argv[i], "rev"))
      rev = 1;
  }
  int wr, wn;
  MPI_Comm_rank(MPI_COMM_WORLD, &wr);
  MPI_Comm_size(MPI_COMM_WORLD, &wn);
  np = wn;
  /* one array shared by all ranks (they live in one process): rank 0 allocates it and passes the address around */
  if (wr == 0) {
    g_cur = (volatile int*)calloc(wn, sizeof(int));
    for (int r = 0; r < wn; r++)
      g_cur[r] = -1;
    for (int r = 1; r < wn; r++)
      MPI_Send((void*)&g_cur, sizeof g_cur, MPI_BYTE, r, 4240, MPI_COMM_WORLD);
  } else
    MPI_Recv((void*)&g_cur, sizeof g_cur, MPI_BYTE, 0, 4240, MPI_COMM_WORLD, MPI_STATUS_IGNORE);
  signal(SIGFPE, on_sig);
  signal(SIGSEGV, on_sig);
  signal(SIGABRT, on_sig);
  signal(SIGBUS, on_sig);
  if (rev)
    MPI_Comm_split(MPI_COMM_WORLD, 0, wn - 1 - wr, &comm);
  else
    comm = MPI_COMM_WORLD;
  MPI_Comm_rank(comm, &me);
  MPI_Comm_size(comm, &np);
  MPI_Comm_set_errhandler(comm, MPI_ERRORS_RETURN);
  MPI_Type_vector(2, 1, 2, MPI_INT, &vec_t);
  MPI_Type_commit(&vec_t);
  MPI_Op_create(user_fn, 1, &user_op);
  DT_INT_.t = MPI_INT;

  FILE* f = argc > 1 ? fopen(argv[1], "r") : NULL;
  if (!f) {
    printf("HARNESS cannot open case file\n");
    _exit(99);
  }
  char line[256];
  long ncases = 0;
  while (fgets(line, sizeof line, f)) {
    if (line[0] == '#' || line[0] == '\n')
      continue;
    Case c;
    if (!parse_case(line, &c)) {
      printf("HARNESS bad case line: %s", line);
      _exit(99);
    }
    g_cur[wr]  = c.idx;
    g_user_vec = c.dt.kind == K_VEC;
    if (sync)
      p2p_sync();
    if (is(&c, "barrier")) {
      barrier_case(&c);
    } else {
      Slot S[2];
      int two = mode_is(&c, "nb2");
      prepare(&c, &S[0], c.vseed);
      if (two)
        prepare(&c, &S[1], c.vseed + 77);
      if (flip == c.idx && me == np - 1 && S[0].r.raw)
        for (long p = GUARD; p < GUARD + S[0].r.bytes; p++)
          if (S[0].r.sig[p]) {
            S[0].r.exp[p] ^= 0x10;
            break;
          }
      if (c.late == me)
        usleep(200);
      start(&c, &S[0]);
      if (two) {
        start(&c, &S[1]);
        finish(&c, &S[1]);
      }
      finish(&c, &S[0]);
    }
    ncases++;
  }
  fclose(f);
  g_cur[wr] = -2;
  printf("DONE rank=%d cases=%ld bytes=%ld bad=%ld\n", me, ncases, n_bytes, n_bad);
  MPI_Op_free(&user_op);
  MPI_Type_free(&vec_t);
  if (rev)
    MPI_Comm_free(&comm);
  MPI_Finalize();
  return 0;
}
