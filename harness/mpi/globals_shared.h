/* C36 harness: declarations shared by globals.c, globals2.c (second translation unit) and globlib.c (static library) */
#ifndef VERIF_GLOBALS_SHARED_H
#define VERIF_GLOBALS_SHARED_H
#define VX_TABLE_N 600
#define VL_TABLE_N 1100
/* globals2.c */
extern int vx_data;
extern int vx_bss[700];
int* vx_hidden(void);
long* vx_table(void);
int* vx_local_static(void);
int vx_pristine(void);
/* globlib.c -> libverifglob.a */
extern int vl_counter;
long* vl_table(void);
double* vl_local_static(void);
int vl_bump(void);
int vl_pristine(void);
#endif
