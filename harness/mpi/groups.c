/* E5 harness for C32: group algebra, rank translation, Comm_split/dup/create against plain-array references.
 * argv: seed ncases. Lines: "BAD <rule> case=<n> rank=<r> ...", rank 0: "CASE ..." and "SUM checks= bad=" */
#include <mpi.h>
#include <stdio.h>
#include <stdlib.h>
#include <string.h>
#define MAXN 64
static unsigned long long st;
static unsigned rnd(void)
{
  st = st * 6364136223846793005ULL + 1442695040888963407ULL;
  return (unsigned)(st >> 33);
}
static long checks = 0, bad = 0;
static int g_case, wr, wn;
#define BAD(rule, ...)                                                                                                 \
  do {                                                                                                                 \
    bad++;                                                                                                             \
    printf("BAD %s case=%d rank=%d | ", rule, g_case, wr);                                                             \
    printf(__VA_ARGS__);                                                                                               \
    printf("\n");                                                                                                      \
  } while (0)
static void show(char* buf, const int* a, int n)
{
  int p = 0;
  buf[0] = 0;
  for (int i = 0; i < n && p < 180; i++)
    p += sprintf(buf + p, "%s%d", i ? "," : "", a[i]);
}
/* members of group g as world ranks, in group order */
static int members(MPI_Group g, MPI_Group world, int* out)
{
  int n, idx[MAXN];
  MPI_Group_size(g, &n);
  for (int i = 0; i < n; i++)
    idx[i] = i;
  if (n > 0)
    MPI_Group_translate_ranks(g, n, idx, world, out);
  return n;
}
static void expect(const char* rule, MPI_Group g, MPI_Group world, const int* exp, int ne, const char* ctxt)
{
  int got[MAXN], n = (g == MPI_GROUP_EMPTY) ? 0 : members(g, world, got);
  checks++;
  if (n != ne || memcmp(got, exp, ne * sizeof(int))) {
    char a[200], b[200];
    show(a, got, n);
    show(b, exp, ne);
    BAD(rule, "%s -> {%s} expected {%s}", ctxt, a, b);
  }
}
static int rand_subset(int* out)
{ /* random ordered subset of world ranks without repetition */
  int n = rnd() % (wn + 1), pool[MAXN];
  for (int i = 0; i < wn; i++)
    pool[i] = i;
  for (int i = 0; i < n; i++) {
    int j   = i + rnd() % (wn - i);
    int t   = pool[i];
    pool[i] = pool[j];
    pool[j] = t;
    out[i]  = pool[i];
  }
  return n;
}
static int has(const int* a, int n, int x)
{
  for (int i = 0; i < n; i++)
    if (a[i] == x)
      return 1;
  return 0;
}
int main(int argc, char** argv)
{
  MPI_Init(&argc, &argv);
  setvbuf(stdout, NULL, _IOLBF, 0);
  MPI_Comm_rank(MPI_COMM_WORLD, &wr);
  MPI_Comm_size(MPI_COMM_WORLD, &wn);
  unsigned seed = argc > 1 ? atoi(argv[1]) : 1;
  int ncases    = argc > 2 ? atoi(argv[2]) : 5;
  st            = seed * 2654435761ULL + 99;
  MPI_Group world;
  MPI_Comm_group(MPI_COMM_WORLD, &world);
  for (g_case = 0; g_case < ncases; g_case++) {
    int A[MAXN], B[MAXN], na = rand_subset(A), nb = rand_subset(B), E[MAXN], ne;
    char sa[200], sb[200], ctxt[500];
    show(sa, A, na);
    show(sb, B, nb);
    snprintf(ctxt, sizeof ctxt, "A={%s} B={%s}", sa, sb);
    if (wr == 0)
      printf("CASE %d np=%d %s\n", g_case, wn, ctxt);
    MPI_Group ga, gb, g;
    MPI_Group_incl(world, na, A, &ga);
    MPI_Group_incl(world, nb, B, &gb);
    expect("incl", ga, world, A, na, ctxt);
    /* union: A then elements of B not in A, in B order */
    ne = 0;
    for (int i = 0; i < na; i++)
      E[ne++] = A[i];
    for (int i = 0; i < nb; i++)
      if (!has(A, na, B[i]))
        E[ne++] = B[i];
    MPI_Group_union(ga, gb, &g);
    expect("union", g, world, E, ne, ctxt);
    /* intersection: elements of A that are in B, in A order */
    ne = 0;
    for (int i = 0; i < na; i++)
      if (has(B, nb, A[i]))
        E[ne++] = A[i];
    MPI_Group_intersection(ga, gb, &g);
    expect("intersection", g, world, E, ne, ctxt);
    /* difference: elements of A not in B, in A order */
    ne = 0;
    for (int i = 0; i < na; i++)
      if (!has(B, nb, A[i]))
        E[ne++] = A[i];
    MPI_Group_difference(ga, gb, &g);
    expect("difference", g, world, E, ne, ctxt);
    /* excl: remove random positions of A */
    if (na > 0) {
      int k = rnd() % (na + 1), pos[MAXN], tmp[MAXN];
      for (int i = 0; i < na; i++)
        tmp[i] = i;
      for (int i = 0; i < k; i++) {
        int j  = i + rnd() % (na - i);
        int t  = tmp[i];
        tmp[i] = tmp[j];
        tmp[j] = t;
        pos[i] = tmp[i];
      }
      ne = 0;
      for (int i = 0; i < na; i++)
        if (!has(pos, k, i))
          E[ne++] = A[i];
      MPI_Group_excl(ga, k, pos, &g);
      expect("excl", g, world, E, ne, ctxt);
      /* range_incl / range_excl with one or two disjoint ranges over positions of A */
      int first = rnd() % na, last = rnd() % na, stride = 1 + rnd() % 3;
      if (rnd() % 2 && first != last) {
        stride = -stride;
        if (first < last) {
          int t = first;
          first = last;
          last  = t;
        }
      } else if (first > last) {
        int t = first;
        first = last;
        last  = t;
      }
      int ranges[1][3] = {{first, last, stride}}, sel[MAXN], ns = 0;
      for (int p = first; stride > 0 ? p <= last : p >= last; p += stride)
        sel[ns++] = p;
      ne = 0;
      for (int i = 0; i < ns; i++)
        E[ne++] = A[sel[i]];
      char c2[600];
      snprintf(c2, sizeof c2, "%s range=(%d,%d,%d)", ctxt, first, last, stride);
      MPI_Group_range_incl(ga, 1, ranges, &g);
      expect("range_incl", g, world, E, ne, c2);
      ne = 0;
      for (int i = 0; i < na; i++)
        if (!has(sel, ns, i))
          E[ne++] = A[i];
      MPI_Group_range_excl(ga, 1, ranges, &g);
      expect("range_excl", g, world, E, ne, c2);
      /* translate ranks A -> B */
      int idx[MAXN], tr[MAXN];
      for (int i = 0; i < na; i++)
        idx[i] = i;
      if (nb > 0 || 1) {
        MPI_Group_translate_ranks(ga, na, idx, gb, tr);
        for (int i = 0; i < na; i++) {
          int e = MPI_UNDEFINED;
          for (int j = 0; j < nb; j++)
            if (B[j] == A[i])
              e = j;
          checks++;
          if (tr[i] != e) {
            BAD("translate_ranks", "%s: rank %d of A -> %d expected %d", ctxt, i, tr[i], e);
            break;
          }
        }
      }
    }
    /* compare */
    {
      int res, exp;
      int same_set = na == nb;
      for (int i = 0; i < na && same_set; i++)
        if (!has(B, nb, A[i]))
          same_set = 0;
      exp = (na == nb && !memcmp(A, B, na * sizeof(int))) ? MPI_IDENT : same_set ? MPI_SIMILAR : MPI_UNEQUAL;
      MPI_Group_compare(ga, gb, &res);
      checks++;
      if (res != exp)
        BAD("compare", "%s -> %d expected %d", ctxt, res, exp);
      MPI_Group_compare(ga, ga, &res);
      checks++;
      if (res != MPI_IDENT)
        BAD("compare_self", "%s -> %d", ctxt, res);
    }
    /* Comm_split: colors/keys drawn identically on every rank */
    {
      int col[MAXN], key[MAXN];
      for (int i = 0; i < wn; i++) {
        col[i] = rnd() % 4 == 0 ? MPI_UNDEFINED : (int)(rnd() % 3);
        key[i] = rnd() % 4; /* many ties -> old rank decides */
      }
      MPI_Comm nc;
      MPI_Comm_split(MPI_COMM_WORLD, col[wr], key[wr], &nc);
      checks++;
      if (col[wr] == MPI_UNDEFINED) {
        if (nc != MPI_COMM_NULL)
          BAD("split_undefined_not_null", "colour MPI_UNDEFINED but a communicator was returned");
      } else if (nc == MPI_COMM_NULL)
        BAD("split_null", "colour %d got MPI_COMM_NULL", col[wr]);
      else {
        /* expected order: by key then by old rank */
        ne = 0;
        for (int k = 0; k < 4; k++)
          for (int i = 0; i < wn; i++)
            if (col[i] == col[wr] && key[i] == k)
              E[ne++] = i;
        MPI_Group ng;
        MPI_Comm_group(nc, &ng);
        expect("split_order", ng, world, E, ne, "Comm_split");
        int nr;
        MPI_Comm_rank(nc, &nr);
        checks++;
        if (nr < 0 || nr >= ne || E[nr] != wr)
          BAD("split_rank", "my rank in the new communicator is %d", nr);
        /* the new communicator really connects those processes in that order */
        int all[MAXN];
        MPI_Allgather(&wr, 1, MPI_INT, all, 1, MPI_INT, nc);
        checks++;
        if (memcmp(all, E, ne * sizeof(int)))
          BAD("split_allgather", "allgather of world ranks over the new communicator differs from the expected order");
        /* dup + isolation: same (source, tag) on two communicators */
        MPI_Comm dp;
        MPI_Comm_dup(nc, &dp);
        int cmp;
        MPI_Comm_compare(nc, dp, &cmp);
        checks++;
        if (cmp != MPI_CONGRUENT)
          BAD("dup_compare", "Comm_compare(comm, dup) = %d", cmp);
        if (ne >= 2) {
          if (nr == 0) {
            int x = 111, y = 222;
            MPI_Request rq[2];
            MPI_Isend(&y, 1, MPI_INT, 1, 5, dp, &rq[0]); /* dup first */
            MPI_Isend(&x, 1, MPI_INT, 1, 5, nc, &rq[1]);
            MPI_Waitall(2, rq, MPI_STATUSES_IGNORE);
          } else if (nr == 1) {
            int x = 0, y = 0;
            MPI_Recv(&x, 1, MPI_INT, 0, 5, nc, MPI_STATUS_IGNORE);
            MPI_Recv(&y, 1, MPI_INT, 0, 5, dp, MPI_STATUS_IGNORE);
            checks++;
            if (x != 111 || y != 222)
              BAD("isolation", "received %d on the communicator and %d on its duplicate (sent 111 and 222)", x, y);
          }
        }
        /* Comm_create on a subgroup (even positions) */
        int ev[MAXN], nev = 0, evw[MAXN];
        for (int i = 0; i < ne; i += 2) {
          ev[nev]    = i;
          evw[nev++] = E[i];
        }
        MPI_Group sg;
        MPI_Group_incl(ng, nev, ev, &sg);
        MPI_Comm cc;
        MPI_Comm_create(nc, sg, &cc);
        checks++;
        if (nr % 2 == 0) {
          if (cc == MPI_COMM_NULL)
            BAD("create_null", "member of the group got MPI_COMM_NULL");
          else {
            MPI_Group cg;
            MPI_Comm_group(cc, &cg);
            expect("create_group", cg, world, evw, nev, "Comm_create");
          }
        } else if (cc != MPI_COMM_NULL)
          BAD("create_not_null", "non-member got a communicator");
      }
    }
  }
  long tot[2] = {checks, bad}, all[2];
  MPI_Reduce(tot, all, 2, MPI_LONG, MPI_SUM, 0, MPI_COMM_WORLD);
  if (wr == 0)
    printf("SUM checks=%ld bad=%ld\n", all[0], all[1]);
  MPI_Finalize();
  return 0;
}
