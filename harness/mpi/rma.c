/* E5 harness for C34: interpreter of generated one-sided (RMA) scripts.  argv[1] = script file.
 * Every rank reads the whole script and executes the lines addressed to it ("<rank> OP ..." or "* OP ..."), in file order.
 * It prints what it observed, the Python oracle (lib/verif/oracles/rma.py) replays the script on a sequential model:
 *   W <rank> <tag> <win> v...      content of the local window memory (DUMP)
 *   G <rank> <id> v...             whole result buffer <id> (SHOW), sentinel -77 where nothing was fetched
 *   E <rank> <line> <rc> <op>      an MPI call returned rc != MPI_SUCCESS
 *   DONE <rank>
 * Header lines:  T <tid> <base> contig n | vector c b s | indexed n bl d bl d ...      (derived datatypes, element units)
 *                W <wid> <kind c|a|d> <elemtype> <iv> <nelem:dispunit>*np                (windows)
 * Value tokens: a literal, or @<id>.<slot>:<c> = slot of a previously fetched (and completed) result buffer plus c. */
#include <mpi.h>
#include <signal.h>
#include <stdio.h>
#include <stdlib.h>
#include <string.h>
#include <unistd.h>

#define MAXTOK 600
#define MAXW 4
#define MAXT 32
#define MAXRB 4096
#define MAXRQ 64
#define SENTINEL (-77)

static int g_rank = -1, g_np = 0, g_line = 0;
static const char* g_op = "none";
static void on_sig(int s)
{
  char buf[200];
  int n = snprintf(buf, sizeof buf, "CRASH sig=%d rank=%d line=%d op=%s\n", s, g_rank, g_line, g_op);
  if (write(1, buf, n) < 0) {}
  _exit(70);
}

static int esize(char et)
{
  switch (et) {
    case 'i': case 'u': return 4;
    case 'l': case 'd': return 8;
    case 'b': return 1;
  }
  return 0;
}
static MPI_Datatype etype(char et)
{
  switch (et) {
    case 'i': return MPI_INT;
    case 'u': return MPI_UNSIGNED;
    case 'l': return MPI_LONG_LONG;
    case 'd': return MPI_DOUBLE;
    case 'b': return MPI_UNSIGNED_CHAR;
  }
  return MPI_DATATYPE_NULL;
}

typedef struct {
  void* p;
  long len;
  char et;
} rbuf_t;
static rbuf_t rb[MAXRB];

static void setll(char et, void* p, long k, long long v)
{
  switch (et) {
    case 'i': ((int*)p)[k] = (int)v; break;
    case 'u': ((unsigned*)p)[k] = (unsigned)v; break;
    case 'l': ((long long*)p)[k] = v; break;
    case 'd': ((double*)p)[k] = (double)v; break;
    case 'b': ((unsigned char*)p)[k] = (unsigned char)v; break;
  }
}
static void setd(char et, void* p, long k, double v)
{
  if (et == 'd')
    ((double*)p)[k] = v;
  else
    setll(et, p, k, (long long)v);
}
static long long getll(char et, const void* p, long k)
{
  switch (et) {
    case 'i': return ((const int*)p)[k];
    case 'u': return ((const unsigned*)p)[k];
    case 'l': return ((const long long*)p)[k];
    case 'b': return ((const unsigned char*)p)[k];
  }
  return 0;
}
/* store value token tok as element k of p */
static void setv(char et, void* p, long k, const char* tok)
{
  if (tok[0] == '@') {
    int id, slot;
    long long c;
    if (sscanf(tok + 1, "%d.%d:%lld", &id, &slot, &c) != 3 || id < 0 || id >= MAXRB || !rb[id].p || slot >= rb[id].len) {
      printf("BADSCRIPT rank=%d line=%d token=%s\n", g_rank, g_line, tok);
      exit(3);
    }
    if (et == 'd')
      ((double*)p)[k] = ((double*)rb[id].p)[slot] + (double)c;
    else if (et == 'u' || et == 'b')
      setll(et, p, k, (long long)((unsigned long long)getll(et, rb[id].p, slot) + (unsigned long long)c));
    else
      setll(et, p, k, getll(et, rb[id].p, slot) + c);
  } else if (et == 'd')
    setd(et, p, k, strtod(tok, NULL));
  else
    setll(et, p, k, strtoll(tok, NULL, 10));
}
static void prv(char et, const void* p, long n)
{
  for (long k = 0; k < n; k++) {
    if (et == 'd')
      printf(" %.17g", ((const double*)p)[k]);
    else
      printf(" %lld", getll(et, p, k));
  }
}

typedef struct {
  MPI_Win win;
  char kind, et;
  long iv;
  long nelem[64];
  int du[64];
  void* base;
  MPI_Aint addr[64];
} win_t;
static win_t W[MAXW];
static MPI_Datatype T[MAXT];
static char Tbase[MAXT];
static MPI_Request RQ[MAXRQ];

static MPI_Datatype tref(const char* tok, char et)
{
  if (tok[0] == 'e')
    return etype(et);
  if (tok[0] == 'y')
    return MPI_BYTE;
  return T[atoi(tok)];
}
static MPI_Op opref(const char* s)
{
  if (!strcmp(s, "SUM")) return MPI_SUM;
  if (!strcmp(s, "PROD")) return MPI_PROD;
  if (!strcmp(s, "MAX")) return MPI_MAX;
  if (!strcmp(s, "MIN")) return MPI_MIN;
  if (!strcmp(s, "BAND")) return MPI_BAND;
  if (!strcmp(s, "BOR")) return MPI_BOR;
  if (!strcmp(s, "BXOR")) return MPI_BXOR;
  if (!strcmp(s, "LAND")) return MPI_LAND;
  if (!strcmp(s, "LOR")) return MPI_LOR;
  if (!strcmp(s, "LXOR")) return MPI_LXOR;
  if (!strcmp(s, "REPLACE")) return MPI_REPLACE;
  if (!strcmp(s, "NO_OP")) return MPI_NO_OP;
  printf("BADSCRIPT rank=%d line=%d op=%s\n", g_rank, g_line, s);
  exit(3);
}
static long initval(const win_t* w, int r, long k)
{
  if (w->et == 'b')
    return (w->iv + 37 * r + k) & 0xff;
  return w->iv + 1000L * r + k;
}
#define CK(call)                                                                                                       \
  do {                                                                                                                 \
    int rc_ = (call);                                                                                                  \
    if (rc_ != MPI_SUCCESS)                                                                                            \
      printf("E %d %d %d %s\n", g_rank, g_line, rc_, g_op);                                                            \
  } while (0)

/* origin buffer of olen elements from tokens tk[0..olen) (never freed before the end: it must outlive the epoch) */
static void* mkorigin(char et, long olen, char** tk)
{
  void* p = malloc((olen > 0 ? olen : 1) * 8);
  for (long k = 0; k < olen; k++)
    setv(et, p, k, tk[k]);
  return p;
}
static void* mkresult(int id, char et, long rlen)
{
  if (id < 0 || id >= MAXRB) {
    printf("BADSCRIPT rank=%d line=%d id=%d\n", g_rank, g_line, id);
    exit(3);
  }
  void* p = malloc((rlen > 0 ? rlen : 1) * 8);
  for (long k = 0; k < rlen; k++)
    setll(et, p, k, SENTINEL);
  rb[id].p   = p;
  rb[id].len = rlen;
  rb[id].et  = et;
  return p;
}
static MPI_Aint tdisp(const win_t* w, int target, const char* tok)
{
  MPI_Aint d = (MPI_Aint)strtoll(tok, NULL, 10);
  if (w->kind == 'd')
    d += w->addr[target];
  return d;
}
static MPI_Group mkgroup(int n, char** tk)
{
  int ranks[64];
  MPI_Group wg, g;
  for (int i = 0; i < n; i++)
    ranks[i] = atoi(tk[i]);
  MPI_Comm_group(MPI_COMM_WORLD, &wg);
  MPI_Group_incl(wg, n, ranks, &g);
  MPI_Group_free(&wg);
  return g;
}

int main(int argc, char** argv)
{
  MPI_Init(&argc, &argv);
  setvbuf(stdout, NULL, _IOLBF, 0);
  signal(SIGFPE, on_sig);
  signal(SIGSEGV, on_sig);
  signal(SIGABRT, on_sig);
  MPI_Comm_rank(MPI_COMM_WORLD, &g_rank);
  MPI_Comm_size(MPI_COMM_WORLD, &g_np);
  MPI_Comm_set_errhandler(MPI_COMM_WORLD, MPI_ERRORS_RETURN);
  if (argc < 2 || g_np > 64) {
    printf("BADSCRIPT usage\n");
    return 3;
  }
  FILE* f = fopen(argv[1], "r");
  if (!f) {
    printf("BADSCRIPT cannot open %s\n", argv[1]);
    return 3;
  }
  for (int i = 0; i < MAXRQ; i++)
    RQ[i] = MPI_REQUEST_NULL;
  for (int i = 0; i < MAXW; i++)
    W[i].win = MPI_WIN_NULL;
  static char line[16384];
  char* tk[MAXTOK];
  int body = 0;
  while (fgets(line, sizeof line, f)) {
    g_line++;
    if (line[0] == '#' || line[0] == '\n')
      continue;
    if (line[0] != '*' && line[0] != 'T' && line[0] != 'W' && atoi(line) != g_rank)
      continue;
    int nt = 0;
    for (char* t = strtok(line, " \t\n"); t && nt < MAXTOK; t = strtok(NULL, " \t\n"))
      tk[nt++] = t;
    if (nt < 2)
      continue;
    if (tk[0][0] == 'T') { /* T tid base kind ... */
      int tid = atoi(tk[1]);
      char b  = tk[2][0];
      g_op    = "type";
      Tbase[tid] = b;
      if (!strcmp(tk[3], "contig"))
        CK(MPI_Type_contiguous(atoi(tk[4]), etype(b), &T[tid]));
      else if (!strcmp(tk[3], "vector"))
        CK(MPI_Type_vector(atoi(tk[4]), atoi(tk[5]), atoi(tk[6]), etype(b), &T[tid]));
      else if (!strcmp(tk[3], "indexed")) {
        int n = atoi(tk[4]), bl[64], ds[64];
        for (int i = 0; i < n; i++) {
          bl[i] = atoi(tk[5 + 2 * i]);
          ds[i] = atoi(tk[6 + 2 * i]);
        }
        CK(MPI_Type_indexed(n, bl, ds, etype(b), &T[tid]));
      }
      CK(MPI_Type_commit(&T[tid]));
      continue;
    }
    if (tk[0][0] == 'W') { /* W wid kind et iv nelem:du * np */
      win_t* w = &W[atoi(tk[1])];
      w->kind  = tk[2][0];
      w->et    = tk[3][0];
      w->iv    = atol(tk[4]);
      for (int r = 0; r < g_np; r++)
        sscanf(tk[5 + r], "%ld:%d", &w->nelem[r], &w->du[r]);
      long n       = w->nelem[g_rank];
      MPI_Aint sz  = (MPI_Aint)n * esize(w->et);
      g_op         = "win_create";
      if (w->kind == 'a') {
        CK(MPI_Win_allocate(sz, w->du[g_rank], MPI_INFO_NULL, MPI_COMM_WORLD, &w->base, &w->win));
      } else if (w->kind == 'c') {
        w->base = n > 0 ? malloc(sz) : NULL;
        CK(MPI_Win_create(w->base, sz, w->du[g_rank], MPI_INFO_NULL, MPI_COMM_WORLD, &w->win));
      } else {
        w->base = malloc(sz > 0 ? sz : 8);
        CK(MPI_Win_create_dynamic(MPI_INFO_NULL, MPI_COMM_WORLD, &w->win));
        CK(MPI_Win_attach(w->win, w->base, sz));
        MPI_Aint a;
        MPI_Get_address(w->base, &a);
        MPI_Allgather(&a, sizeof a, MPI_BYTE, w->addr, sizeof a, MPI_BYTE, MPI_COMM_WORLD);
      }
      MPI_Win_set_errhandler(w->win, MPI_ERRORS_RETURN);
      for (long k = 0; k < n; k++)
        setll(w->et, w->base, k, initval(w, g_rank, k));
      continue;
    }
    if (!body) {
      body = 1;
      MPI_Barrier(MPI_COMM_WORLD);
    }
    const char* op = tk[1];
    g_op           = op;
    char** a       = tk + 2; /* arguments */
    if (!strcmp(op, "BARRIER")) {
      MPI_Barrier(MPI_COMM_WORLD);
    } else if (!strcmp(op, "DELAY")) { /* simulated sleep (usleep is intercepted by SMPI) */
      usleep(atoi(a[0]));
    } else if (!strcmp(op, "FENCE")) {
      CK(MPI_Win_fence(atoi(a[1]), W[atoi(a[0])].win));
    } else if (!strcmp(op, "LOCK")) {
      CK(MPI_Win_lock(a[1][0] == 'x' ? MPI_LOCK_EXCLUSIVE : MPI_LOCK_SHARED, atoi(a[2]), atoi(a[3]), W[atoi(a[0])].win));
    } else if (!strcmp(op, "UNLOCK")) {
      CK(MPI_Win_unlock(atoi(a[1]), W[atoi(a[0])].win));
    } else if (!strcmp(op, "LOCKALL")) {
      CK(MPI_Win_lock_all(0, W[atoi(a[0])].win));
    } else if (!strcmp(op, "UNLOCKALL")) {
      CK(MPI_Win_unlock_all(W[atoi(a[0])].win));
    } else if (!strcmp(op, "FLUSH")) {
      CK(MPI_Win_flush(atoi(a[1]), W[atoi(a[0])].win));
    } else if (!strcmp(op, "FLUSHL")) {
      CK(MPI_Win_flush_local(atoi(a[1]), W[atoi(a[0])].win));
    } else if (!strcmp(op, "FLUSHALL")) {
      CK(MPI_Win_flush_all(W[atoi(a[0])].win));
    } else if (!strcmp(op, "FLUSHLALL")) {
      CK(MPI_Win_flush_local_all(W[atoi(a[0])].win));
    } else if (!strcmp(op, "POST") || !strcmp(op, "START")) {
      MPI_Group g = mkgroup(atoi(a[1]), a + 2);
      if (op[0] == 'P')
        CK(MPI_Win_post(g, 0, W[atoi(a[0])].win));
      else
        CK(MPI_Win_start(g, 0, W[atoi(a[0])].win));
      MPI_Group_free(&g);
    } else if (!strcmp(op, "COMPLETE")) {
      CK(MPI_Win_complete(W[atoi(a[0])].win));
    } else if (!strcmp(op, "WAIT")) {
      CK(MPI_Win_wait(W[atoi(a[0])].win));
    } else if (!strcmp(op, "DUMP")) { /* DUMP w tag */
      win_t* w = &W[atoi(a[0])];
      printf("W %d %s %d", g_rank, a[1], atoi(a[0]));
      prv(w->et, w->base, w->nelem[g_rank]);
      printf("\n");
    } else if (!strcmp(op, "LSTORE")) { /* LSTORE w idx n v... */
      win_t* w = &W[atoi(a[0])];
      long idx = atol(a[1]), n = atol(a[2]);
      for (long k = 0; k < n; k++)
        setv(w->et, w->base, idx + k, a[3 + k]);
    } else if (!strcmp(op, "SHOW")) {
      int id = atoi(a[0]);
      printf("G %d %d", g_rank, id);
      prv(rb[id].et, rb[id].p, rb[id].len);
      printf("\n");
    } else if (!strcmp(op, "WAITRQ")) {
      CK(MPI_Wait(&RQ[atoi(a[0])], MPI_STATUS_IGNORE));
    } else if (!strcmp(op, "PUT") || !strcmp(op, "RPUT")) { /* [rq] w t tdisp tcount ttype ocount otype olen v... */
      int rq = -1;
      if (op[0] == 'R')
        rq = atoi(*a++);
      win_t* w   = &W[atoi(a[0])];
      int t      = atoi(a[1]);
      void* o    = mkorigin(w->et, atol(a[7]), a + 8);
      if (rq < 0)
        CK(MPI_Put(o, atoi(a[5]), tref(a[6], w->et), t, tdisp(w, t, a[2]), atoi(a[3]), tref(a[4], w->et), w->win));
      else
        CK(MPI_Rput(o, atoi(a[5]), tref(a[6], w->et), t, tdisp(w, t, a[2]), atoi(a[3]), tref(a[4], w->et), w->win, &RQ[rq]));
    } else if (!strcmp(op, "GET") || !strcmp(op, "RGET")) { /* [rq] id w t tdisp tcount ttype ocount otype rlen */
      int rq = -1;
      if (op[0] == 'R')
        rq = atoi(*a++);
      win_t* w = &W[atoi(a[1])];
      int t    = atoi(a[2]);
      void* r  = mkresult(atoi(a[0]), w->et, atol(a[8]));
      if (rq < 0)
        CK(MPI_Get(r, atoi(a[6]), tref(a[7], w->et), t, tdisp(w, t, a[3]), atoi(a[4]), tref(a[5], w->et), w->win));
      else
        CK(MPI_Rget(r, atoi(a[6]), tref(a[7], w->et), t, tdisp(w, t, a[3]), atoi(a[4]), tref(a[5], w->et), w->win, &RQ[rq]));
    } else if (!strcmp(op, "ACC") || !strcmp(op, "RACC")) { /* [rq] w t tdisp tcount ttype ocount otype op olen v... */
      int rq = -1;
      if (op[0] == 'R')
        rq = atoi(*a++);
      win_t* w = &W[atoi(a[0])];
      int t    = atoi(a[1]);
      void* o  = mkorigin(w->et, atol(a[8]), a + 9);
      if (rq < 0)
        CK(MPI_Accumulate(o, atoi(a[5]), tref(a[6], w->et), t, tdisp(w, t, a[2]), atoi(a[3]), tref(a[4], w->et), opref(a[7]),
                          w->win));
      else
        CK(MPI_Raccumulate(o, atoi(a[5]), tref(a[6], w->et), t, tdisp(w, t, a[2]), atoi(a[3]), tref(a[4], w->et),
                           opref(a[7]), w->win, &RQ[rq]));
    } else if (!strcmp(op, "GACC")) { /* id w t tdisp tcount ttype ocount otype rcount rtype rlen op olen v... */
      win_t* w = &W[atoi(a[1])];
      int t    = atoi(a[2]);
      void* r  = mkresult(atoi(a[0]), w->et, atol(a[10]));
      void* o  = mkorigin(w->et, atol(a[12]), a + 13);
      CK(MPI_Get_accumulate(o, atoi(a[6]), tref(a[7], w->et), r, atoi(a[8]), tref(a[9], w->et), t, tdisp(w, t, a[3]),
                            atoi(a[4]), tref(a[5], w->et), opref(a[11]), w->win));
    } else if (!strcmp(op, "FOP")) { /* id w t tdisp op v */
      win_t* w = &W[atoi(a[1])];
      int t    = atoi(a[2]);
      void* r  = mkresult(atoi(a[0]), w->et, 1);
      void* o  = mkorigin(w->et, 1, a + 5);
      CK(MPI_Fetch_and_op(o, r, etype(w->et), t, tdisp(w, t, a[3]), opref(a[4]), w->win));
    } else if (!strcmp(op, "CAS")) { /* id w t tdisp new cmp */
      win_t* w = &W[atoi(a[1])];
      int t    = atoi(a[2]);
      void* r  = mkresult(atoi(a[0]), w->et, 1);
      void* o  = mkorigin(w->et, 1, a + 4);
      void* c  = mkorigin(w->et, 1, a + 5);
      CK(MPI_Compare_and_swap(o, c, r, etype(w->et), t, tdisp(w, t, a[3]), w->win));
    } else {
      printf("BADSCRIPT rank=%d line=%d op=%s\n", g_rank, g_line, op);
      exit(3);
    }
  }
  fclose(f);
  g_op = "win_free";
  MPI_Barrier(MPI_COMM_WORLD);
  for (int i = 0; i < MAXW; i++)
    if (W[i].win != MPI_WIN_NULL) {
      if (W[i].kind == 'd')
        CK(MPI_Win_detach(W[i].win, W[i].base));
      CK(MPI_Win_free(&W[i].win));
    }
  printf("DONE %d\n", g_rank);
  MPI_Finalize();
  return 0;
}
