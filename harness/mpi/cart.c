/* E5 harness for C33: cartesian topology functions against the definitions of the MPI standard (row-major ranks).
 * argv: seed ncases. Every rank prints "BAD <rule> case=<id> ..." lines; rank 0 prints "CASE ..." and "SUM ..." lines. */
#include <mpi.h>
#include <signal.h>
#include <stdio.h>
#include <stdlib.h>
#include <string.h>
#include <unistd.h>
static int g_case = -1, g_rank = -1;
static const char* g_op = "none";
static char g_desc[200];
static void on_sig(int s)
{
  char buf[400];
  int n = snprintf(buf, sizeof buf, "CRASH sig=%d case=%d op=%s rank=%d %s\n", s, g_case, g_op, g_rank, g_desc);
  if (write(1, buf, n) < 0) {}
  _exit(70);
}
static unsigned long long st;
static unsigned rnd(void)
{
  st = st * 6364136223846793005ULL + 1442695040888963407ULL;
  return (unsigned)(st >> 33);
}
static long checks = 0, bad = 0;
#define BAD(rule, ...)                                                                                                 \
  do {                                                                                                                 \
    bad++;                                                                                                             \
    printf("BAD %s case=%d rank=%d %s | ", rule, g_case, g_rank, g_desc);                                              \
    printf(__VA_ARGS__);                                                                                               \
    printf("\n");                                                                                                      \
  } while (0)
static int ref_rank(int nd, const int* dims, const int* per, const int* c, int* valid)
{
  int r = 0;
  *valid = 1;
  for (int i = 0; i < nd; i++) {
    int x = c[i];
    if (x < 0 || x >= dims[i]) {
      if (!per[i]) {
        *valid = 0;
        return MPI_PROC_NULL;
      }
      x = ((x % dims[i]) + dims[i]) % dims[i];
    }
    r = r * dims[i] + x;
  }
  return r;
}
int main(int argc, char** argv)
{
  MPI_Init(&argc, &argv);
  setvbuf(stdout, NULL, _IOLBF, 0);
  signal(SIGFPE, on_sig);
  signal(SIGSEGV, on_sig);
  signal(SIGABRT, on_sig);
  int wr, wn;
  MPI_Comm_rank(MPI_COMM_WORLD, &wr);
  MPI_Comm_size(MPI_COMM_WORLD, &wn);
  g_rank = wr;
  unsigned seed = argc > 1 ? atoi(argv[1]) : 1;
  int ncases    = argc > 2 ? atoi(argv[2]) : 20;
  int only      = argc > 3 ? atoi(argv[3]) : -1;
  st            = seed * 2654435761ULL + 12345;
  MPI_Comm_set_errhandler(MPI_COMM_WORLD, MPI_ERRORS_RETURN);
  for (int cs = 0; cs < ncases; cs++) {
    g_case = cs;
    /* all ranks draw the same case */
    int nd = 1 + rnd() % 4, dims[4], per[4], prod = 1;
    for (int i = 0; i < nd; i++) {
      int maxd = wn / prod;
      dims[i]  = maxd <= 1 ? 1 : 1 + rnd() % (maxd < 5 ? maxd : 5);
      if (i == 0 && dims[i] == 1 && maxd > 1)
        dims[i] = 2;
      prod *= dims[i];
      per[i] = rnd() % 2;
    }
    int remain[4], kept = 0, keptprod = 1;
    for (int i = 0; i < nd; i++) {
      remain[i] = rnd() % 2;
      if (remain[i]) {
        kept++;
        keptprod *= dims[i];
      }
    }
    unsigned r2 = rnd();
    if (only >= 0 && cs != only)
      continue;
    snprintf(g_desc, sizeof g_desc, "dims=%d,%d,%d,%d nd=%d per=%d%d%d%d remain=%d%d%d%d", dims[0], nd > 1 ? dims[1] : 0,
             nd > 2 ? dims[2] : 0, nd > 3 ? dims[3] : 0, nd, per[0], nd > 1 ? per[1] : 0, nd > 2 ? per[2] : 0,
             nd > 3 ? per[3] : 0, remain[0], nd > 1 ? remain[1] : 0, nd > 2 ? remain[2] : 0, nd > 3 ? remain[3] : 0);
    if (wr == 0)
      printf("CASE %d %s nodes=%d\n", cs, g_desc, prod);
    MPI_Comm cart = MPI_COMM_NULL;
    g_op          = "Cart_create";
    int rc        = MPI_Cart_create(MPI_COMM_WORLD, nd, dims, per, 0, &cart);
    if (rc != MPI_SUCCESS) {
      BAD("cart_create_error", "rc=%d", rc);
      continue;
    }
    if (wr >= prod) {
      checks++;
      if (cart != MPI_COMM_NULL)
        BAD("cart_create_extra_rank_not_null", "world rank %d >= %d nodes", wr, prod);
      continue;
    }
    if (cart == MPI_COMM_NULL) {
      BAD("cart_create_null", "world rank %d < %d nodes", wr, prod);
      continue;
    }
    int me, sz;
    MPI_Comm_rank(cart, &me);
    MPI_Comm_size(cart, &sz);
    checks++;
    if (sz != prod)
      BAD("cart_size", "size=%d expected=%d", sz, prod);
    MPI_Comm_set_errhandler(cart, MPI_ERRORS_RETURN);
    /* coords <-> rank bijection, for every rank of the grid */
    int mine[4] = {0, 0, 0, 0};
    for (int r = 0; r < prod; r++) {
      int c[4] = {-7, -7, -7, -7}, valid, back = -5;
      g_op = "Cart_coords";
      MPI_Cart_coords(cart, r, nd, c);
      int rem = r, exp[4] = {0, 0, 0, 0};
      for (int i = nd - 1; i >= 0; i--) {
        exp[i] = rem % dims[i];
        rem /= dims[i];
      }
      checks++;
      if (memcmp(c, exp, nd * sizeof(int)))
        BAD("coords", "rank %d -> %d,%d,%d,%d expected %d,%d,%d,%d", r, c[0], c[1], c[2], c[3], exp[0], nd > 1 ? exp[1] : -7, nd > 2 ? exp[2] : -7, nd > 3 ? exp[3] : -7);
      if (r == me)
        memcpy(mine, exp, sizeof mine);
      g_op = "Cart_rank";
      MPI_Cart_rank(cart, exp, &back);
      checks++;
      if (back != r)
        BAD("rank_of_coords", "coords of %d map back to %d", r, back);
      /* wrap-around on periodic dimensions */
      int w[4], anyper = 0;
      for (int i = 0; i < nd; i++) {
        w[i] = exp[i];
        if (per[i]) {
          w[i] += ((int)(rnd() % 5) - 2) * dims[i];
          anyper = 1;
        }
      }
      if (anyper) {
        back = -5;
        MPI_Cart_rank(cart, w, &back);
        checks++;
        if (back != ref_rank(nd, dims, per, w, &valid))
          BAD("rank_wraparound", "coords %d,%d,%d,%d -> %d expected %d", w[0], w[1], w[2], w[3], back, r);
      }
    }
    /* shifts */
    for (int d = 0; d < nd; d++)
      for (int disp = -2 * dims[d]; disp <= 2 * dims[d]; disp++) {
        int src = -77, dst = -77, valid, c[4];
        g_op = "Cart_shift";
        rc   = MPI_Cart_shift(cart, d, disp, &src, &dst);
        memcpy(c, mine, sizeof c);
        c[d] = mine[d] + disp;
        int edst = ref_rank(nd, dims, per, c, &valid);
        c[d]     = mine[d] - disp;
        int esrc = ref_rank(nd, dims, per, c, &valid);
        checks++;
        if (rc != MPI_SUCCESS)
          BAD("shift_error", "dir %d disp %d rc=%d", d, disp, rc);
        else if (src != esrc || dst != edst)
          BAD(disp == 0 ? "shift_zero" : "shift", "dir %d disp %d -> src=%d dst=%d expected src=%d dst=%d", d, disp, src, dst, esrc, edst);
      }
    /* Cart_get */
    {
      int gd[4], gp[4], gc[4];
      g_op = "Cart_get";
      MPI_Cart_get(cart, nd, gd, gp, gc);
      checks++;
      for (int i = 0; i < nd; i++)
        if (gd[i] != dims[i] || !gp[i] != !per[i] || gc[i] != mine[i]) {
          BAD("cart_get", "dim %d: dims=%d per=%d coord=%d expected %d %d %d", i, gd[i], gp[i], gc[i], dims[i], per[i], mine[i]);
          break;
        }
    }
    /* Cart_sub */
    if (kept > 0) {
      MPI_Comm sub = MPI_COMM_NULL;
      g_op         = "Cart_sub";
      rc           = MPI_Cart_sub(cart, remain, &sub);
      if (rc != MPI_SUCCESS || sub == MPI_COMM_NULL)
        BAD("sub_error", "rc=%d", rc);
      else {
        int sn, snd = -1, sd[4] = {-1, -1, -1, -1}, sp[4] = {-1, -1, -1, -1}, sc[4] = {-1, -1, -1, -1};
        MPI_Comm_size(sub, &sn);
        checks++;
        if (sn != keptprod)
          BAD("sub_size", "size=%d expected=%d", sn, keptprod);
        g_op = "Cartdim_get(sub)";
        MPI_Cartdim_get(sub, &snd);
        checks++;
        const char* cls = me >= keptprod ? "sub_topology:rank>=subsize" : "sub_topology";
        if (snd != kept)
          BAD(cls, "ndims=%d expected=%d", snd, kept);
        else {
          g_op = "Cart_get(sub)";
          MPI_Cart_get(sub, kept, sd, sp, sc);
          int j = 0, okk = 1;
          for (int i = 0; i < nd; i++)
            if (remain[i]) {
              if (sd[j] != dims[i] || !sp[j] != !per[i] || sc[j] != mine[i])
                okk = 0;
              j++;
            }
          checks++;
          if (!okk)
            BAD(cls, "dims=%d,%d per=%d,%d coords=%d,%d (my grid coords %d,%d,%d,%d)", sd[0], sd[1], sp[0], sp[1], sc[0], sc[1], mine[0], mine[1], mine[2], mine[3]);
          else {
            int src, dst;
            g_op = "Cart_shift(sub)";
            MPI_Cart_shift(sub, 0, 1, &src, &dst);
            checks++;
          }
        }
        /* sub and cart are deliberately not freed: MPI_Comm_free on topology communicators is outside C33 */
      }
    }

    /* Dims_create (local) */
    {
      int n = 1 + r2 % 64, k = 1 + (r2 >> 8) % 4, dd[4] = {0, 0, 0, 0}, given[4] = {0, 0, 0, 0};
      if (k > 1 && (r2 >> 12) % 3 == 0) { /* fix one entry to a divisor */
        int idx = (r2 >> 16) % k, dv = 1 + (r2 >> 20) % 8;
        if (n % dv == 0)
          dd[idx] = given[idx] = dv;
      }
      g_op = "Dims_create";
      rc   = MPI_Dims_create(n, k, dd);
      checks++;
      if (rc != MPI_SUCCESS)
        BAD("dims_create_error", "nnodes=%d ndims=%d rc=%d", n, k, rc);
      else {
        int p = 1, okk = 1, last = 1 << 30;
        for (int i = 0; i < k; i++) {
          p *= dd[i];
          if (given[i] && dd[i] != given[i])
            okk = 0;
          if (!given[i]) {
            if (dd[i] > last || dd[i] < 1)
              okk = 0;
            last = dd[i];
          }
        }
        if (p != n || !okk)
          BAD("dims_create", "nnodes=%d ndims=%d given=%d,%d,%d,%d -> %d,%d,%d,%d", n, k, given[0], given[1], given[2], given[3], dd[0], dd[1], dd[2], dd[3]);
      }
    }
  }
  fflush(stdout);
  long tot[2] = {checks, bad}, all[2];
  MPI_Reduce(tot, all, 2, MPI_LONG, MPI_SUM, 0, MPI_COMM_WORLD);
  if (wr == 0)
    printf("SUM checks=%ld bad=%ld\n", all[0], all[1]);
  MPI_Finalize();
  return 0;
}
