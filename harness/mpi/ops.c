/* E5 harness for C31: every predefined reduction operator on every datatype MPI allows it for, through MPI_Reduce_local,
 * against element-wise loops written from the definitions of the MPI standard. argv: seed rounds.
 * Lines: "BAD <op> <type> count=<n> idx=<i> ..." , "PAIR <op> <type> ok|unsupported" , "SUM checks= bad=" */
#include <mpi.h>
#include <limits.h>
#include <signal.h>
#include <stdbool.h>
#include <stdint.h>
#include <stdio.h>
#include <stdlib.h>
#include <string.h>
#include <unistd.h>
#define N 17
static unsigned long long st;
static unsigned long long rnd64(void)
{
  st = st * 6364136223846793005ULL + 1442695040888963407ULL;
  unsigned long long a = st >> 32;
  st = st * 6364136223846793005ULL + 1442695040888963407ULL;
  return (a << 32) | (st >> 32);
}
static long checks = 0, bad = 0;
static const char *cur_op = "", *cur_ty = "";
static void on_sig(int s)
{
  char buf[200];
  int n = snprintf(buf, sizeof buf, "CRASH sig=%d op=%s type=%s\n", s, cur_op, cur_ty);
  if (write(1, buf, n) < 0) {}
  _exit(70);
}
enum { K_SINT, K_UINT, K_FP, K_BOOL, K_BYTE };
enum { O_MAX, O_MIN, O_SUM, O_PROD, O_LAND, O_LOR, O_LXOR, O_BAND, O_BOR, O_BXOR, O_REPLACE, O_NO_OP, NOPS };
static const char* opname[NOPS] = {"MPI_MAX", "MPI_MIN", "MPI_SUM", "MPI_PROD", "MPI_LAND", "MPI_LOR", "MPI_LXOR", "MPI_BAND", "MPI_BOR", "MPI_BXOR", "MPI_REPLACE", "MPI_NO_OP"};
static MPI_Op ops[NOPS];
static int allowed(int kind, int op)
{
  if (op == O_REPLACE || op == O_NO_OP)
    return 0; /* MPI defines these two for RMA accumulate calls only: MPI_Reduce_local may reject them */
  switch (kind) {
    case K_SINT:
    case K_UINT:
      return 1; /* C integer: arithmetic, logical, bitwise */
    case K_FP:
      return op <= O_PROD;
    case K_BOOL:
      return op >= O_LAND && op <= O_LXOR;
    case K_BYTE:
      return op >= O_BAND && op <= O_BXOR;
  }
  return 0;
}
static void report_pair(const char* op, const char* ty, long nb)
{
  printf("PAIR %s %s %s\n", op, ty, nb ? "bad" : "ok");
}
/* value generators */
#define GEN_INT(T, MINV, MAXV, small)                                                                                  \
  ((small) ? (T)((long long)(rnd64() % 23) - ((MINV) < 0 ? 11 : 0))                                                     \
           : (rnd64() % 4 == 0 ? (T)(rnd64() % 3 == 0 ? (MINV) : rnd64() % 2 ? (MAXV) : 0) : (T)rnd64()))
#define DEF_INT(T, sfx, KIND, MINV, MAXV)                                                                              \
  static void test_##sfx(MPI_Datatype mt, const char* name)                                                            \
  {                                                                                                                    \
    cur_ty = name;                                                                                                     \
    for (int op = 0; op < NOPS; op++) {                                                                                \
      if (!allowed(KIND, op))                                                                                          \
        continue;                                                                                                      \
      cur_op  = opname[op];                                                                                            \
      long b0 = bad;                                                                                                   \
      for (int count = 0; count <= N; count += (count < 3 ? 1 : 7)) {                                                  \
        T in[N + 1], io[N + 1], ex[N + 1];                                                                             \
        int small = (KIND == K_SINT) && (op == O_SUM || op == O_PROD); /* signed overflow is UB: keep it overflow-free */ \
        for (int i = 0; i <= N; i++) {                                                                                 \
          in[i] = GEN_INT(T, MINV, MAXV, small);                                                                       \
          io[i] = GEN_INT(T, MINV, MAXV, small);                                                                       \
          if (KIND == K_BOOL) {                                                                                        \
            in[i] = (T)(rnd64() % 2);                                                                                  \
            io[i] = (T)(rnd64() % 2);                                                                                  \
          }                                                                                                            \
          ex[i] = io[i];                                                                                               \
        }                                                                                                              \
        for (int i = 0; i < count; i++) {                                                                              \
          T a = in[i], b = io[i];                                                                                      \
          switch (op) {                                                                                                \
            case O_MAX: ex[i] = a > b ? a : b; break;                                                                  \
            case O_MIN: ex[i] = a < b ? a : b; break;                                                                  \
            case O_SUM: ex[i] = (T)(a + b); break;                                                                     \
            case O_PROD: ex[i] = (T)(a * b); break;                                                                    \
            case O_LAND: ex[i] = (T)(a && b); break;                                                                   \
            case O_LOR: ex[i] = (T)(a || b); break;                                                                    \
            case O_LXOR: ex[i] = (T)((!a) != (!b)); break;                                                             \
            case O_BAND: ex[i] = (T)(a & b); break;                                                                    \
            case O_BOR: ex[i] = (T)(a | b); break;                                                                     \
            case O_BXOR: ex[i] = (T)(a ^ b); break;                                                                    \
            case O_REPLACE: ex[i] = a; break;                                                                          \
            case O_NO_OP: break;                                                                                       \
          }                                                                                                            \
        }                                                                                                              \
        int rc = MPI_Reduce_local(in, io, count, mt, ops[op]);                                                         \
        checks++;                                                                                                      \
        if (rc != MPI_SUCCESS) {                                                                                       \
          bad++;                                                                                                       \
          printf("BAD %s %s count=%d rejected rc=%d although MPI allows this pair\n", opname[op], name, count, rc);   \
          break;                                                                                                       \
        }                                                                                                              \
        for (int i = 0; i <= N; i++)                                                                                   \
          if (memcmp(&io[i], &ex[i], sizeof(T))) {                                                                     \
            bad++;                                                                                                     \
            printf("BAD %s %s count=%d idx=%d%s in=%lld inout=%lld got=%lld expected=%lld\n", opname[op], name, count, i, \
                   i >= count ? "(beyond count)" : "", (long long)in[i], (long long)ex[i] * 0 + (long long)(i < count ? 0 : 0) + (long long)0, (long long)io[i], (long long)ex[i]); \
            break;                                                                                                     \
          }                                                                                                            \
      }                                                                                                                \
      report_pair(opname[op], name, bad - b0);                                                                         \
    }                                                                                                                  \
  }
#define DEF_FP(T, sfx)                                                                                                 \
  static void test_##sfx(MPI_Datatype mt, const char* name)                                                            \
  {                                                                                                                    \
    cur_ty = name;                                                                                                     \
    static const double vals[] = {0.0, 1.0, -1.0, 1.5, -2.25, 1e30, -1e30, 3.0, 0.1, 1e-30, 123456.789};                \
    for (int op = 0; op < NOPS; op++) {                                                                                \
      if (!allowed(K_FP, op))                                                                                          \
        continue;                                                                                                      \
      cur_op  = opname[op];                                                                                            \
      long b0 = bad;                                                                                                   \
      for (int count = 0; count <= N; count += (count < 3 ? 1 : 7)) {                                                  \
        T in[N + 1], io[N + 1], ex[N + 1];                                                                             \
        for (int i = 0; i <= N; i++) {                                                                                 \
          in[i] = (T)(rnd64() % 3 ? vals[rnd64() % 11] : (double)(long long)(rnd64() % 2000001 - 1000000) / 64.0);      \
          io[i] = (T)(rnd64() % 3 ? vals[rnd64() % 11] : (double)(long long)(rnd64() % 2000001 - 1000000) / 64.0);      \
          ex[i] = io[i];                                                                                               \
        }                                                                                                              \
        for (int i = 0; i < count; i++) {                                                                              \
          T a = in[i], b = io[i];                                                                                      \
          switch (op) {                                                                                                \
            case O_MAX: ex[i] = a > b ? a : b; break;                                                                  \
            case O_MIN: ex[i] = a < b ? a : b; break;                                                                  \
            case O_SUM: ex[i] = a + b; break;                                                                          \
            case O_PROD: ex[i] = a * b; break;                                                                         \
            case O_REPLACE: ex[i] = a; break;                                                                          \
            default: break;                                                                                            \
          }                                                                                                            \
        }                                                                                                              \
        int rc = MPI_Reduce_local(in, io, count, mt, ops[op]);                                                         \
        checks++;                                                                                                      \
        if (rc != MPI_SUCCESS) {                                                                                       \
          bad++;                                                                                                       \
          printf("BAD %s %s count=%d rejected rc=%d although MPI allows this pair\n", opname[op], name, count, rc);   \
          break;                                                                                                       \
        }                                                                                                              \
        for (int i = 0; i <= N; i++)                                                                                   \
          if (!(io[i] == ex[i])) {                                                                                     \
            bad++;                                                                                                     \
            printf("BAD %s %s count=%d idx=%d%s in=%Lg got=%Lg expected=%Lg\n", opname[op], name, count, i,           \
                   i >= count ? "(beyond count)" : "", (long double)in[i], (long double)io[i], (long double)ex[i]);    \
            break;                                                                                                     \
          }                                                                                                            \
      }                                                                                                                \
      report_pair(opname[op], name, bad - b0);                                                                         \
    }                                                                                                                  \
  }
#define DEF_LOC(T, sfx)                                                                                                \
  static void test_##sfx(MPI_Datatype mt, const char* name)                                                            \
  {                                                                                                                    \
    cur_ty = name;                                                                                                     \
    struct P {                                                                                                         \
      T v;                                                                                                             \
      int k;                                                                                                           \
    };                                                                                                                 \
    for (int which = 0; which < 2; which++) {                                                                          \
      cur_op  = which ? "MPI_MAXLOC" : "MPI_MINLOC";                                                                   \
      long b0 = bad;                                                                                                   \
      for (int count = 0; count <= N; count += (count < 3 ? 1 : 7)) {                                                  \
        struct P in[N + 1], io[N + 1], ex[N + 1];                                                                      \
        memset(in, 0, sizeof in);                                                                                      \
        memset(io, 0, sizeof io);                                                                                      \
        for (int i = 0; i <= N; i++) {                                                                                 \
          in[i].v = (T)((long long)(rnd64() % 5) - 2); /* few values: many ties */                                     \
          io[i].v = (T)((long long)(rnd64() % 5) - 2);                                                                 \
          in[i].k = (int)(rnd64() % 7);                                                                                \
          io[i].k = (int)(rnd64() % 7);                                                                                \
        }                                                                                                              \
        memcpy(ex, io, sizeof ex);                                                                                     \
        for (int i = 0; i < count; i++) {                                                                              \
          int takea = which ? in[i].v > io[i].v : in[i].v < io[i].v;                                                   \
          if (in[i].v == io[i].v) {                                                                                    \
            ex[i].v = in[i].v;                                                                                         \
            ex[i].k = in[i].k < io[i].k ? in[i].k : io[i].k;                                                           \
          } else if (takea)                                                                                            \
            ex[i] = in[i];                                                                                             \
        }                                                                                                              \
        int rc = MPI_Reduce_local(in, io, count, mt, which ? MPI_MAXLOC : MPI_MINLOC);                                 \
        checks++;                                                                                                      \
        if (rc != MPI_SUCCESS) {                                                                                       \
          bad++;                                                                                                       \
          printf("BAD %s %s count=%d rejected rc=%d although MPI allows this pair\n", cur_op, name, count, rc);        \
          break;                                                                                                       \
        }                                                                                                              \
        for (int i = 0; i <= N; i++)                                                                                   \
          if (!(io[i].v == ex[i].v) || io[i].k != ex[i].k) {                                                           \
            bad++;                                                                                                     \
            printf("BAD %s %s count=%d idx=%d%s in=(%Lg,%d) got=(%Lg,%d) expected=(%Lg,%d)\n", cur_op, name, count, i, \
                   i >= count ? "(beyond count)" : "", (long double)in[i].v, in[i].k, (long double)io[i].v, io[i].k,  \
                   (long double)ex[i].v, ex[i].k);                                                                     \
            break;                                                                                                     \
          }                                                                                                            \
      }                                                                                                                \
      report_pair(cur_op, name, bad - b0);                                                                             \
    }                                                                                                                  \
  }
DEF_INT(short, short, K_SINT, SHRT_MIN, SHRT_MAX)
DEF_INT(int, int, K_SINT, INT_MIN, INT_MAX)
DEF_INT(long, long, K_SINT, LONG_MIN, LONG_MAX)
DEF_INT(long long, llong, K_SINT, LLONG_MIN, LLONG_MAX)
DEF_INT(signed char, schar, K_SINT, SCHAR_MIN, SCHAR_MAX)
DEF_INT(unsigned char, uchar, K_UINT, 0, UCHAR_MAX)
DEF_INT(unsigned short, ushort, K_UINT, 0, USHRT_MAX)
DEF_INT(unsigned, uint, K_UINT, 0, UINT_MAX)
DEF_INT(unsigned long, ulong, K_UINT, 0, ULONG_MAX)
DEF_INT(unsigned long long, ullong, K_UINT, 0, ULLONG_MAX)
DEF_INT(int8_t, i8, K_SINT, INT8_MIN, INT8_MAX)
DEF_INT(int16_t, i16, K_SINT, INT16_MIN, INT16_MAX)
DEF_INT(int32_t, i32, K_SINT, INT32_MIN, INT32_MAX)
DEF_INT(int64_t, i64, K_SINT, INT64_MIN, INT64_MAX)
DEF_INT(uint8_t, u8, K_UINT, 0, UINT8_MAX)
DEF_INT(uint16_t, u16, K_UINT, 0, UINT16_MAX)
DEF_INT(uint32_t, u32, K_UINT, 0, UINT32_MAX)
DEF_INT(uint64_t, u64, K_UINT, 0, UINT64_MAX)
DEF_INT(bool, cbool, K_BOOL, 0, 1)
DEF_INT(unsigned char, byte, K_BYTE, 0, UCHAR_MAX)
DEF_FP(float, flt)
DEF_FP(double, dbl)
DEF_FP(long double, ldbl)
DEF_LOC(float, floatint)
DEF_LOC(double, doubleint)
DEF_LOC(long, longint)
DEF_LOC(int, twoint)
DEF_LOC(short, shortint)
DEF_LOC(long double, ldblint)
int main(int argc, char** argv)
{
  MPI_Init(&argc, &argv);
  setvbuf(stdout, NULL, _IOLBF, 0);
  signal(SIGFPE, on_sig);
  signal(SIGSEGV, on_sig);
  signal(SIGABRT, on_sig);
  MPI_Comm_set_errhandler(MPI_COMM_WORLD, MPI_ERRORS_RETURN);
  unsigned seed = argc > 1 ? atoi(argv[1]) : 1;
  int rounds    = argc > 2 ? atoi(argv[2]) : 3;
  st            = seed * 2654435761ULL + 7;
  MPI_Op o[NOPS] = {MPI_MAX, MPI_MIN, MPI_SUM, MPI_PROD, MPI_LAND, MPI_LOR, MPI_LXOR, MPI_BAND, MPI_BOR, MPI_BXOR, MPI_REPLACE, MPI_NO_OP};
  memcpy(ops, o, sizeof o);
  for (int r = 0; r < rounds; r++) {
    test_short(MPI_SHORT, "MPI_SHORT");
    test_int(MPI_INT, "MPI_INT");
    test_long(MPI_LONG, "MPI_LONG");
    test_llong(MPI_LONG_LONG, "MPI_LONG_LONG");
    test_schar(MPI_SIGNED_CHAR, "MPI_SIGNED_CHAR");
    test_uchar(MPI_UNSIGNED_CHAR, "MPI_UNSIGNED_CHAR");
    test_ushort(MPI_UNSIGNED_SHORT, "MPI_UNSIGNED_SHORT");
    test_uint(MPI_UNSIGNED, "MPI_UNSIGNED");
    test_ulong(MPI_UNSIGNED_LONG, "MPI_UNSIGNED_LONG");
    test_ullong(MPI_UNSIGNED_LONG_LONG, "MPI_UNSIGNED_LONG_LONG");
    test_i8(MPI_INT8_T, "MPI_INT8_T");
    test_i16(MPI_INT16_T, "MPI_INT16_T");
    test_i32(MPI_INT32_T, "MPI_INT32_T");
    test_i64(MPI_INT64_T, "MPI_INT64_T");
    test_u8(MPI_UINT8_T, "MPI_UINT8_T");
    test_u16(MPI_UINT16_T, "MPI_UINT16_T");
    test_u32(MPI_UINT32_T, "MPI_UINT32_T");
    test_u64(MPI_UINT64_T, "MPI_UINT64_T");
    test_cbool(MPI_C_BOOL, "MPI_C_BOOL");
    test_byte(MPI_BYTE, "MPI_BYTE");
    test_flt(MPI_FLOAT, "MPI_FLOAT");
    test_dbl(MPI_DOUBLE, "MPI_DOUBLE");
    test_ldbl(MPI_LONG_DOUBLE, "MPI_LONG_DOUBLE");
    test_floatint(MPI_FLOAT_INT, "MPI_FLOAT_INT");
    test_doubleint(MPI_DOUBLE_INT, "MPI_DOUBLE_INT");
    test_longint(MPI_LONG_INT, "MPI_LONG_INT");
    test_twoint(MPI_2INT, "MPI_2INT");
    test_shortint(MPI_SHORT_INT, "MPI_SHORT_INT");
    test_ldblint(MPI_LONG_DOUBLE_INT, "MPI_LONG_DOUBLE_INT");
  }
  /* pairs MPI forbids: must not crash; either an error class or some result */
  {
    double a[4] = {1, 2, 3, 4}, b[4] = {4, 3, 2, 1};
    cur_ty = "MPI_DOUBLE";
    cur_op = "MPI_BAND";
    int rc = MPI_Reduce_local(a, b, 4, MPI_DOUBLE, MPI_BAND);
    printf("FORBIDDEN MPI_BAND MPI_DOUBLE rc=%d\n", rc);
    struct { double v; int k; } p[2] = {{1, 0}, {2, 1}}, q[2] = {{2, 0}, {1, 1}};
    cur_ty = "MPI_DOUBLE_INT";
    cur_op = "MPI_SUM";
    rc     = MPI_Reduce_local(p, q, 2, MPI_DOUBLE_INT, MPI_SUM);
    printf("FORBIDDEN MPI_SUM MPI_DOUBLE_INT rc=%d\n", rc);
    cur_ty = "MPI_INT";
    cur_op = "MPI_MINLOC";
    int x[2] = {1, 2}, y[2] = {2, 1};
    rc       = MPI_Reduce_local(x, y, 2, MPI_INT, MPI_MINLOC);
    printf("FORBIDDEN MPI_MINLOC MPI_INT rc=%d\n", rc);
  }
  printf("SUM checks=%ld bad=%ld\n", checks, bad);
  MPI_Finalize();
  return 0;
}
