/* C47 workload: a seeded mix of MPI calls (same sequence on every rank, so collectives match) whose only purpose is to
 * make SMPI's tracing emit states, links, containers and variables. Usage: tracemix <seed> <nops> [mask]
 * mask (bit set = family allowed): 1 p2p, 2 collectives, 4 compute/sleep, 8 comm split, 16 RMA, 32 category, 64 early exit of
 * some ranks between Finalize and return (ranks finish at different dates).
 * Prints "DONE <rank>" per rank at the end. */
#include <mpi.h>
#include <simgrid/instr.h>
#include <stdio.h>
#include <stdlib.h>
#include <string.h>
#include <unistd.h>

static unsigned long long st;
static unsigned rnd(void)
{
  st = st * 6364136223846793005ULL + 1442695040888963407ULL;
  return (unsigned)(st >> 33);
}
static int pick(int n) { return (int)(rnd() % (unsigned)n); }

#define MAXC 4096
static int sbuf[MAXC * 8], rbuf[MAXC * 8];

int main(int argc, char** argv)
{
  int rank, size;
  MPI_Init(&argc, &argv);
  MPI_Comm_rank(MPI_COMM_WORLD, &rank);
  MPI_Comm_size(MPI_COMM_WORLD, &size);
  long seed = argc > 1 ? atol(argv[1]) : 1;
  int nops  = argc > 2 ? atoi(argv[2]) : 10;
  int mask  = argc > 3 ? atoi(argv[3]) : 127;
  st        = 88172645463325252ULL ^ (unsigned long long)seed * 2654435761ULL;
  static const int counts[] = {0, 1, 3, 16, 100, 1000, 4000};
  for (int i = 0; i < MAXC * 8; i++)
    sbuf[i] = i + rank;
  for (int op = 0; op < nops; op++) {
    int fam = pick(7);
    int c   = counts[pick(7)];
    int cs  = c > 512 ? 512 : c; /* per-peer count for all-to-all like calls */
    int root = pick(size);
    if (!((mask >> fam) & 1) && fam < 6)
      continue;
    switch (fam) {
      case 0: { /* point to point */
        int kind = pick(7);
        if (size < 2)
          break;
        int right = (rank + 1) % size, left = (rank + size - 1) % size;
        MPI_Request rq[2];
        MPI_Status sts[2];
        if (kind == 0) { /* ring sendrecv */
          MPI_Sendrecv(sbuf, c, MPI_INT, right, 7, rbuf, c, MPI_INT, left, 7, MPI_COMM_WORLD, MPI_STATUS_IGNORE);
        } else if (kind == 1) { /* isend/irecv + waitall */
          MPI_Irecv(rbuf, c, MPI_INT, left, 8, MPI_COMM_WORLD, &rq[0]);
          MPI_Isend(sbuf, c, MPI_INT, right, 8, MPI_COMM_WORLD, &rq[1]);
          MPI_Waitall(2, rq, sts);
        } else if (kind == 2) { /* irecv + send + wait */
          MPI_Irecv(rbuf, c, MPI_INT, left, 9, MPI_COMM_WORLD, &rq[0]);
          MPI_Send(sbuf, c, MPI_INT, right, 9, MPI_COMM_WORLD);
          MPI_Wait(&rq[0], &sts[0]);
        } else if (kind == 3) { /* waitany loop */
          MPI_Irecv(rbuf, c, MPI_INT, left, 10, MPI_COMM_WORLD, &rq[0]);
          MPI_Isend(sbuf, c, MPI_INT, right, 10, MPI_COMM_WORLD, &rq[1]);
          for (int k = 0; k < 2; k++) {
            int idx;
            MPI_Waitany(2, rq, &idx, MPI_STATUS_IGNORE);
          }
        } else if (kind == 4) { /* test loop with sleeps */
          int flag = 0;
          MPI_Irecv(rbuf, c, MPI_INT, left, 11, MPI_COMM_WORLD, &rq[0]);
          MPI_Isend(sbuf, c, MPI_INT, right, 11, MPI_COMM_WORLD, &rq[1]);
          while (!flag) {
            MPI_Test(&rq[0], &flag, MPI_STATUS_IGNORE);
            if (!flag)
              usleep(100);
          }
          MPI_Wait(&rq[1], MPI_STATUS_IGNORE);
        } else if (kind == 5) { /* even ranks ssend to odd neighbours, probe on the receiver; any source */
          if (rank % 2 == 0 && rank + 1 < size)
            MPI_Ssend(sbuf, c, MPI_INT, rank + 1, 12, MPI_COMM_WORLD);
          else if (rank % 2 == 1) {
            MPI_Status s;
            MPI_Probe(MPI_ANY_SOURCE, 12, MPI_COMM_WORLD, &s);
            MPI_Recv(rbuf, c, MPI_INT, s.MPI_SOURCE, 12, MPI_COMM_WORLD, MPI_STATUS_IGNORE);
          }
        } else { /* persistent requests */
          MPI_Recv_init(rbuf, c, MPI_INT, left, 13, MPI_COMM_WORLD, &rq[0]);
          MPI_Send_init(sbuf, c, MPI_INT, right, 13, MPI_COMM_WORLD, &rq[1]);
          MPI_Startall(2, rq);
          MPI_Waitall(2, rq, MPI_STATUSES_IGNORE);
          MPI_Request_free(&rq[0]);
          MPI_Request_free(&rq[1]);
        }
        break;
      }
      case 1: { /* collectives */
        int kind = pick(14);
        int cnts[64], dsp[64];
        for (int i = 0; i < size && i < 64; i++) {
          cnts[i] = (i % 3) + (cs > 0 ? 1 : 0);
          dsp[i]  = i * 4;
        }
        switch (kind) {
          case 0: MPI_Barrier(MPI_COMM_WORLD); break;
          case 1: MPI_Bcast(sbuf, c, MPI_INT, root, MPI_COMM_WORLD); break;
          case 2: MPI_Reduce(sbuf, rbuf, c, MPI_INT, MPI_SUM, root, MPI_COMM_WORLD); break;
          case 3: MPI_Allreduce(sbuf, rbuf, c > 0 ? c : 1, MPI_INT, MPI_MAX, MPI_COMM_WORLD); break;
          case 4: MPI_Alltoall(sbuf, cs, MPI_INT, rbuf, cs, MPI_INT, MPI_COMM_WORLD); break;
          case 5: MPI_Allgather(sbuf, cs, MPI_INT, rbuf, cs, MPI_INT, MPI_COMM_WORLD); break;
          case 6: MPI_Gather(sbuf, cs, MPI_INT, rbuf, cs, MPI_INT, root, MPI_COMM_WORLD); break;
          case 7: MPI_Scatter(sbuf, cs, MPI_INT, rbuf, cs, MPI_INT, root, MPI_COMM_WORLD); break;
          case 8: MPI_Scan(sbuf, rbuf, c > 0 ? c : 1, MPI_INT, MPI_SUM, MPI_COMM_WORLD); break;
          case 9: MPI_Exscan(sbuf, rbuf, c > 0 ? c : 1, MPI_INT, MPI_SUM, MPI_COMM_WORLD); break;
          case 10: MPI_Gatherv(sbuf, cnts[rank], MPI_INT, rbuf, cnts, dsp, MPI_INT, root, MPI_COMM_WORLD); break;
          case 11: MPI_Allgatherv(sbuf, cnts[rank], MPI_INT, rbuf, cnts, dsp, MPI_INT, MPI_COMM_WORLD); break;
          case 12: {
            int sc[64], sd[64];
            for (int i = 0; i < size && i < 64; i++) {
              sc[i] = 2;
              sd[i] = 2 * i;
            }
            MPI_Alltoallv(sbuf, sc, sd, MPI_INT, rbuf, sc, sd, MPI_INT, MPI_COMM_WORLD);
            break;
          }
          default: {
            int rc[64];
            for (int i = 0; i < size && i < 64; i++)
              rc[i] = 2;
            MPI_Reduce_scatter(sbuf, rbuf, rc, MPI_INT, MPI_SUM, MPI_COMM_WORLD);
            break;
          }
        }
        break;
      }
      case 2: { /* compute and sleep, different amounts per rank so that ranks drift apart */
        int kind = pick(4);
        double f = (1 + (rank + pick(3)) % 3) * 1e7;
        if (kind == 0)
          smpi_execute_flops(f);
        else if (kind == 1)
          smpi_execute(1e-3 * (1 + rank % 2));
        else if (kind == 2)
          usleep(1000 * (1 + (rank + op) % 3));
        else
          sleep(1);
        break;
      }
      case 3: { /* communicator split, collective on the part, free */
        MPI_Comm sub;
        int color = (rank + pick(2)) % 2;
        MPI_Comm_split(MPI_COMM_WORLD, color, rank, &sub);
        MPI_Allreduce(sbuf, rbuf, 4, MPI_INT, MPI_SUM, sub);
        if (pick(2))
          MPI_Bcast(sbuf, c, MPI_INT, 0, sub);
        MPI_Comm_free(&sub);
        break;
      }
      case 4: { /* one-sided */
        MPI_Win win;
        int kind = pick(3);
        int tgt  = (rank + 1) % size;
        MPI_Win_create(rbuf, MAXC * sizeof(int), sizeof(int), MPI_INFO_NULL, MPI_COMM_WORLD, &win);
        MPI_Win_fence(0, win);
        if (kind == 0)
          MPI_Put(sbuf, 8, MPI_INT, tgt, 0, 8, MPI_INT, win);
        else if (kind == 1)
          MPI_Get(sbuf + MAXC, 8, MPI_INT, tgt, 0, 8, MPI_INT, win);
        else
          MPI_Accumulate(sbuf, 8, MPI_INT, tgt, 16, 8, MPI_INT, MPI_SUM, win);
        MPI_Win_fence(0, win);
        MPI_Win_free(&win);
        break;
      }
      case 5: { /* tracing category of the following computations */
        static const char* cats[] = {"ca", "cb", "cc"};
        TRACE_smpi_set_category(cats[pick(3)]);
        smpi_execute_flops(2e7);
        break;
      }
      default:
        MPI_Barrier(MPI_COMM_WORLD);
    }
  }
  if ((mask & 64) && rank % 2 == 1)
    smpi_execute_flops(5e7 * rank);
  MPI_Finalize();
  if ((mask & 64) && rank % 3 == 0)
    sleep(1);
  printf("DONE %d\n", rank);
  return 0;
}
