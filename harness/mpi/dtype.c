/* E5 harness for C30: builds the derived datatypes described in a case file (lib/verif/gen/dtype.py), prints what MPI says about
 * them and moves data through them on several paths, comparing with the reference type map given in the file.
 *   NT n
 *   T id kind nargs args...      kind: 1 contiguous 2 vector 3 hvector 4 indexed 5 hindexed 6 indexed_block 7 struct 8 resized 9 subarray
 *                                old types are referenced by id (negative = predefined)
 *   E id size lb ext0 ext1 maxcount nseg (off len)*     reference: type map as byte segments in type-map order
 * argv[2..]: "from=<index>" transfers start at the index-th type of the file (all types are always built), "only=<id>" transfers
 *            of that type only, "<id>" transfers of that type skipped.
 * Output:  m id rc size lb extent true_lb true_extent
 *          p rank id count path            this rank begins that path (the last one of a rank tells where it died)
 *          x id count path code where      code 0 ok, 1 selected byte wrong/missing, 2 byte outside the type map modified, 3 MPI error,
 *                                          4 wrong position/size answer            (path names in PATHS below)
 *          CRASH sig rank                  rank = the rank that was running (the ranks are dlopen-ed copies of this program: the
 *                                          globals seen by the handler are those of the copy that registered last)
 * Run with 2 ranks. */
#include <mpi.h>
#include <signal.h>
#include <stdio.h>
#include <stdlib.h>
#include <string.h>
#include <unistd.h>

#define GUARD 64
#define GFILL 0xA5
enum { P_SRS, P_TT, P_TB, P_BT, P_PACK, P_UNPACK, P_BCAST, P_GATHER, P_ITT, P_SCATTER, P_SRS2, NPATH };
typedef struct {
  int id, kind, nargs, *args;
  MPI_Datatype t;
  int built, size, lb, ext0, ext1, maxc, nseg, *segs;
  long ext; /* extent used for the replication of elements */
  int skip, extbad; /* extbad: MPI's extent is not the reference's: elements cannot be replicated meaningfully */
} ty_t;
static ty_t* T;
static int NT, g_rank, g_np;
static void on_sig(int s)
{
  char b[120];
  int r = -1;
  signal(SIGSEGV, SIG_DFL); /* a fault in here must end the process */
  signal(SIGFPE, SIG_DFL);
  signal(SIGBUS, SIG_DFL);
  signal(SIGABRT, SIG_DFL);
  if (write(1, "DYING\n", 6) < 0) {
  }
  MPI_Comm_rank(MPI_COMM_WORLD, &r); /* answers for the actor that is running now */
  int n = snprintf(b, sizeof b, "CRASH %d %d\n", s, r);
  if (write(1, b, n) < 0) {
  }
  _exit(70);
}
static MPI_Datatype look(int id)
{
  switch (id) {
    case -1: return MPI_CHAR;
    case -2: return MPI_SHORT;
    case -3: return MPI_INT;
    case -4: return MPI_DOUBLE;
    case -5: return MPI_BYTE;
    case -6: return MPI_LONG_LONG;
    case -7: return MPI_FLOAT;
  }
  for (int i = 0; i < NT; i++)
    if (T[i].id == id)
      return T[i].t;
  return MPI_DATATYPE_NULL;
}
static unsigned char pat(long j, int r)
{
  return (unsigned char)(1 + (j * 7 + r * 31 + j / 251) % 160);
}
static unsigned char pak(long k, int r)
{
  return (unsigned char)(1 + (k * 11 + r * 17 + k / 127) % 150);
}
static int build(ty_t* y)
{
  int* a = y->args;
  int rc = MPI_SUCCESS;
  MPI_Aint ad[16];
  MPI_Datatype ts[16];
  switch (y->kind) {
    case 1: rc = MPI_Type_contiguous(a[0], look(a[1]), &y->t); break;
    case 2: rc = MPI_Type_vector(a[0], a[1], a[2], look(a[3]), &y->t); break;
    case 3: rc = MPI_Type_create_hvector(a[0], a[1], (MPI_Aint)a[2], look(a[3]), &y->t); break;
    case 4: rc = MPI_Type_indexed(a[0], a + 1, a + 1 + a[0], look(a[1 + 2 * a[0]]), &y->t); break;
    case 5:
      for (int i = 0; i < a[0]; i++)
        ad[i] = a[1 + a[0] + i];
      rc = MPI_Type_create_hindexed(a[0], a + 1, ad, look(a[1 + 2 * a[0]]), &y->t);
      break;
    case 6: rc = MPI_Type_create_indexed_block(a[0], a[1], a + 2, look(a[2 + a[0]]), &y->t); break;
    case 7:
      for (int i = 0; i < a[0]; i++) {
        ad[i] = a[1 + a[0] + i];
        ts[i] = look(a[1 + 2 * a[0] + i]);
      }
      rc = MPI_Type_create_struct(a[0], a + 1, ad, ts, &y->t);
      break;
    case 8: rc = MPI_Type_create_resized(look(a[2]), (MPI_Aint)a[0], (MPI_Aint)a[1], &y->t); break;
    case 9: {
      int nd = a[0];
      rc     = MPI_Type_create_subarray(nd, a + 1, a + 1 + nd, a + 1 + 2 * nd, a[1 + 3 * nd] ? MPI_ORDER_FORTRAN : MPI_ORDER_C,
                                        look(a[2 + 3 * nd]), &y->t);
      break;
    }
  }
  if (rc == MPI_SUCCESS && y->t != MPI_DATATYPE_NULL)
    rc = MPI_Type_commit(&y->t);
  return rc;
}
/* map[k] = byte offset (from the buffer origin) of the k-th byte of `count` elements in type-map order */
static long* mkmap(const ty_t* y, int count, long* n, long* spanout)
{
  long tot = (long)y->size * count, k = 0, span = 0;
  long* m  = malloc(sizeof(long) * (tot + 1));
  for (int e = 0; e < count; e++)
    for (int s = 0; s < y->nseg; s++)
      for (int b = 0; b < y->segs[2 * s + 1]; b++) {
        long off = e * y->ext + y->segs[2 * s] + b;
        m[k++]   = off;
        if (off + 1 > span)
          span = off + 1;
      }
  *n       = tot;
  *spanout = span;
  return m;
}
static unsigned char* gbuf(long span, int fillpat, int r)
{
  unsigned char* b = malloc(span + 2 * GUARD);
  memset(b, GFILL, span + 2 * GUARD);
  if (fillpat)
    for (long j = 0; j < span; j++)
      b[GUARD + j] = pat(j, r);
  return b;
}
static void report(const ty_t* y, int count, int path, int code, long where)
{
  printf("x %d %d %d %d %ld\n", y->id, count, path, code, where);
}
/* dst (with guards) must equal exp on [0,span) and be untouched in the guards; sel[j] says whether byte j is in the type map */
static void verify(const ty_t* y, int count, int path, const unsigned char* dst, const unsigned char* exp, const char* sel, long span,
                   int rc)
{
  if (rc != MPI_SUCCESS) {
    int c = rc;
    MPI_Error_class(rc, &c);
    report(y, count, path, 3, c);
    return;
  }
  for (long j = 0; j < GUARD; j++)
    if (dst[j] != GFILL || dst[GUARD + span + j] != GFILL) {
      report(y, count, path, 2, dst[j] != GFILL ? j - GUARD : span + j);
      return;
    }
  for (long j = 0; j < span; j++)
    if (dst[GUARD + j] != exp[j]) {
      report(y, count, path, sel[j] ? 1 : 2, j);
      return;
    }
  report(y, count, path, 0, 0);
}
static void test(ty_t* y, int count)
{
  long n, span;
  long* map = mkmap(y, count, &n, &span);
  int peer  = 1 - g_rank;
  unsigned char* exp = malloc(span + 1);
  char* sel          = calloc(span + 1, 1);
  for (long k = 0; k < n; k++)
    sel[map[k]] = 1;
  MPI_Status st;
  for (int path = 0; path < NPATH; path++) {
    int rc = MPI_SUCCESS;
    if ((path == P_GATHER || path == P_SCATTER) && y->extbad)
      continue;
    printf("p %d %d %d %d\n", g_rank, y->id, count, path);
    switch (path) {
      case P_SRS:
        if (g_rank == 0) {
          unsigned char* src = gbuf(span, 1, 0);
          unsigned char* dst = gbuf(span, 0, 0);
          rc = MPI_Sendrecv(src + GUARD, count, y->t, 0, 5, dst + GUARD, count, y->t, 0, 5, MPI_COMM_SELF, &st);
          memset(exp, GFILL, span);
          for (long k = 0; k < n; k++)
            exp[map[k]] = pat(map[k], 0);
          verify(y, count, path, dst, exp, sel, span, rc);
          free(src);
          free(dst);
        }
        break;
      case P_SRS2: /* message from a rank to itself, received through a *different* derived type of another size:
                      blocks of d bytes, d a divisor of the message size other than the size of the sent type */
        if (g_rank == 0 && n > 1) {
          long tsz = n / (count > 0 ? count : 1);
          long d   = 0;
          for (long c = 2; c <= n && c <= 64; c++)
            if (n % c == 0 && c != tsz) {
              d = c;
              break;
            }
          if (d == 0)
            break;
          MPI_Datatype blk;
          MPI_Type_contiguous((int)d, MPI_BYTE, &blk);
          MPI_Type_commit(&blk);
          unsigned char* src  = gbuf(span, 1, 0);
          unsigned char* dst  = gbuf(n, 0, 0);
          unsigned char* expb = malloc(n + 1);
          char* selb          = malloc(n + 1);
          rc = MPI_Sendrecv(src + GUARD, count, y->t, 0, 6, dst + GUARD, (int)(n / d), blk, 0, 6, MPI_COMM_SELF, &st);
          for (long k = 0; k < n; k++) {
            expb[k] = pat(map[k], 0);
            selb[k] = 1;
          }
          verify(y, count, path, dst, expb, selb, n, rc);
          MPI_Type_free(&blk);
          free(src);
          free(dst);
          free(expb);
          free(selb);
        }
        break;
      case P_TT:
      case P_ITT:
        if (g_rank == 0) {
          unsigned char* src = gbuf(span, 1, 0);
          if (path == P_TT)
            rc = MPI_Send(src + GUARD, count, y->t, peer, 10 + path, MPI_COMM_WORLD);
          else {
            MPI_Request q;
            rc = MPI_Isend(src + GUARD, count, y->t, peer, 10 + path, MPI_COMM_WORLD, &q);
            MPI_Wait(&q, MPI_STATUS_IGNORE);
          }
          if (rc != MPI_SUCCESS)
            report(y, count, path, 3, -1);
          free(src);
        } else {
          unsigned char* dst = gbuf(span, 0, 0);
          if (path == P_TT)
            rc = MPI_Recv(dst + GUARD, count, y->t, peer, 10 + path, MPI_COMM_WORLD, &st);
          else {
            MPI_Request q;
            rc = MPI_Irecv(dst + GUARD, count, y->t, peer, 10 + path, MPI_COMM_WORLD, &q);
            if (rc == MPI_SUCCESS)
              rc = MPI_Wait(&q, &st);
          }
          memset(exp, GFILL, span);
          for (long k = 0; k < n; k++)
            exp[map[k]] = pat(map[k], 0);
          verify(y, count, path, dst, exp, sel, span, rc);
          if (rc == MPI_SUCCESS) {
            int got = -1;
            MPI_Get_count(&st, MPI_BYTE, &got);
            if (got != n)
              report(y, count, path, 4, got);
          }
          free(dst);
        }
        break;
      case P_TB: /* typed send, byte receive: the wire order is the type-map order */
        if (g_rank == 0) {
          unsigned char* src = gbuf(span, 1, 0);
          rc                 = MPI_Send(src + GUARD, count, y->t, peer, 12, MPI_COMM_WORLD);
          if (rc != MPI_SUCCESS)
            report(y, count, path, 3, -1);
          free(src);
        } else {
          unsigned char* dst  = gbuf(n, 0, 0);
          unsigned char* expb = malloc(n + 1);
          char* selb          = malloc(n + 1);
          rc                  = MPI_Recv(dst + GUARD, (int)n, MPI_BYTE, peer, 12, MPI_COMM_WORLD, &st);
          for (long k = 0; k < n; k++) {
            expb[k] = pat(map[k], 0);
            selb[k] = 1;
          }
          verify(y, count, path, dst, expb, selb, n, rc);
          free(dst);
          free(expb);
          free(selb);
        }
        break;
      case P_BT: /* byte send, typed receive */
        if (g_rank == 0) {
          unsigned char* src = malloc(n + 1);
          for (long k = 0; k < n; k++)
            src[k] = pak(k, 0);
          rc = MPI_Send(src, (int)n, MPI_BYTE, peer, 13, MPI_COMM_WORLD);
          free(src);
        } else {
          unsigned char* dst = gbuf(span, 0, 0);
          rc                 = MPI_Recv(dst + GUARD, count, y->t, peer, 13, MPI_COMM_WORLD, &st);
          memset(exp, GFILL, span);
          for (long k = 0; k < n; k++)
            exp[map[k]] = pak(k, 0);
          verify(y, count, path, dst, exp, sel, span, rc);
          free(dst);
        }
        break;
      case P_PACK:
        if (g_rank == 0) { /* packs behind pos0 bytes that are already in the buffer */
          int pos0 = (count & 1) ? 5 : 0;
          unsigned char* src  = gbuf(span, 1, 0);
          unsigned char* dst  = gbuf(n + pos0, 0, 0);
          unsigned char* expb = malloc(n + pos0 + 1);
          char* selb          = malloc(n + pos0 + 1);
          int pos = pos0, psz = -1;
          MPI_Pack_size(count, y->t, MPI_COMM_WORLD, &psz);
          rc = MPI_Pack(src + GUARD, count, y->t, dst + GUARD, (int)n + pos0, &pos, MPI_COMM_WORLD);
          for (int k = 0; k < pos0; k++) {
            expb[k] = GFILL;
            selb[k] = 0;
          }
          for (long k = 0; k < n; k++) {
            expb[pos0 + k] = pat(map[k], 0);
            selb[pos0 + k] = 1;
          }
          verify(y, count, path, dst, expb, selb, n + pos0, rc);
          if (rc == MPI_SUCCESS && (pos != n + pos0 || psz < n))
            report(y, count, path, 4, pos != n + pos0 ? pos : psz);
          free(src);
          free(dst);
          free(expb);
          free(selb);
        }
        break;
      case P_UNPACK:
        if (g_rank == 0) { /* unpacks from position pos0 of the packed buffer */
          int pos0 = (count & 1) ? 5 : 0;
          unsigned char* src = malloc(n + pos0 + 1);
          unsigned char* dst = gbuf(span, 0, 0);
          memset(src, 0x5A, pos0);
          for (long k = 0; k < n; k++)
            src[pos0 + k] = pak(k, 0);
          int pos = pos0;
          rc      = MPI_Unpack(src, (int)n + pos0, &pos, dst + GUARD, count, y->t, MPI_COMM_WORLD);
          memset(exp, GFILL, span);
          for (long k = 0; k < n; k++)
            exp[map[k]] = pak(k, 0);
          verify(y, count, path, dst, exp, sel, span, rc);
          if (rc == MPI_SUCCESS && pos != n + pos0)
            report(y, count, path, 4, pos);
          free(src);
          free(dst);
        }
        break;
      case P_BCAST: {
        unsigned char* b = gbuf(span, g_rank == 0, 0);
        rc               = MPI_Bcast(b + GUARD, count, y->t, 0, MPI_COMM_WORLD);
        if (g_rank != 0) {
          memset(exp, GFILL, span);
          for (long k = 0; k < n; k++)
            exp[map[k]] = pat(map[k], 0);
          verify(y, count, path, b, exp, sel, span, rc);
        }
        free(b);
        break;
      }
      case P_GATHER:
      case P_SCATTER: {
        /* root buffer holds np*count elements; element e of rank r sits at (r*count+e)*extent */
        long rspan = count == 0 ? 0 : span + (long)(g_np - 1) * count * y->ext;
        if (count > 0 && y->ext <= 0)
          break;
        unsigned char* small = gbuf(span, path == P_GATHER, g_rank);
        unsigned char* big   = gbuf(rspan, 0, 0);
        if (path == P_SCATTER && g_rank == 0)
          for (long j = 0; j < rspan; j++)
            big[GUARD + j] = pat(j, 3);
        if (path == P_GATHER)
          rc = MPI_Gather(small + GUARD, count, y->t, big + GUARD, count, y->t, 0, MPI_COMM_WORLD);
        else
          rc = MPI_Scatter(big + GUARD, count, y->t, small + GUARD, count, y->t, 0, MPI_COMM_WORLD);
        if (path == P_GATHER && g_rank == 0) {
          unsigned char* e2 = malloc(rspan + 1);
          char* s2          = calloc(rspan + 1, 1);
          memset(e2, GFILL, rspan);
          for (int r = 0; r < g_np; r++)
            for (long k = 0; k < n; k++) {
              long o = map[k] + (long)r * count * y->ext;
              e2[o]  = pat(map[k], r);
              s2[o]  = 1;
            }
          verify(y, count, path, big, e2, s2, rspan, rc);
          free(e2);
          free(s2);
        } else if (path == P_SCATTER) {
          memset(exp, GFILL, span);
          for (long k = 0; k < n; k++)
            exp[map[k]] = pat(map[k] + (long)g_rank * count * y->ext, 3);
          if (g_rank != 0) /* the root's own part goes through the same code as rank 1's */
            verify(y, count, path, small, exp, sel, span, rc);
        }
        free(small);
        free(big);
        break;
      }
    }
  }
  free(map);
  free(exp);
  free(sel);
}
int main(int argc, char** argv)
{
  MPI_Init(&argc, &argv);
  setvbuf(stdout, NULL, _IOLBF, 0);
  signal(SIGSEGV, on_sig);
  signal(SIGFPE, on_sig);
  signal(SIGBUS, on_sig);
  signal(SIGABRT, on_sig);
  MPI_Comm_rank(MPI_COMM_WORLD, &g_rank);
  MPI_Comm_size(MPI_COMM_WORLD, &g_np);
  MPI_Comm_set_errhandler(MPI_COMM_WORLD, MPI_ERRORS_RETURN);
  MPI_Comm_set_errhandler(MPI_COMM_SELF, MPI_ERRORS_RETURN);
  FILE* f = fopen(argv[1], "r");
  char w[16];
  if (!f || fscanf(f, "%15s %d", w, &NT) != 2 || g_np != 2) {
    printf("HARNESS cannot read %s (np=%d)\n", argv[1], g_np);
    MPI_Abort(MPI_COMM_WORLD, 3);
  }
  T = calloc(NT, sizeof(ty_t));
  for (int i = 0; i < NT; i++) {
    ty_t* y = &T[i];
    if (fscanf(f, "%15s %d %d %d", w, &y->id, &y->kind, &y->nargs) != 4)
      MPI_Abort(MPI_COMM_WORLD, 3);
    y->args = malloc(sizeof(int) * (y->nargs + 1));
    for (int k = 0; k < y->nargs; k++)
      if (fscanf(f, "%d", &y->args[k]) != 1)
        MPI_Abort(MPI_COMM_WORLD, 3);
    int id2;
    if (fscanf(f, "%15s %d %d %d %d %d %d %d", w, &id2, &y->size, &y->lb, &y->ext0, &y->ext1, &y->maxc, &y->nseg) != 8 || id2 != y->id)
      MPI_Abort(MPI_COMM_WORLD, 3);
    y->segs = malloc(sizeof(int) * (2 * y->nseg + 1));
    for (int k = 0; k < 2 * y->nseg; k++)
      if (fscanf(f, "%d", &y->segs[k]) != 1)
        MPI_Abort(MPI_COMM_WORLD, 3);
    for (int k = 2; k < argc; k++) {
      if (!strncmp(argv[k], "from=", 5)) {
        if (i < atoi(argv[k] + 5))
          y->skip = 1;
      } else if (!strncmp(argv[k], "only=", 5)) {
        if (atoi(argv[k] + 5) != y->id)
          y->skip = 1;
      } else if (atoi(argv[k]) == y->id)
        y->skip = 1;
    }
    y->t  = MPI_DATATYPE_NULL;
    printf("p %d %d -1 -1\n", g_rank, y->id);
    int rc = build(y);
    if (rc != MPI_SUCCESS || y->t == MPI_DATATYPE_NULL) {
      if (g_rank == 0)
        printf("m %d %d 0 0 0 0 0\n", y->id, rc == MPI_SUCCESS ? -1 : rc);
      continue;
    }
    y->built = 1;
    int sz   = -1;
    MPI_Aint lb = -1, ex = -1, tlb = -1, tex = -1;
    MPI_Type_size(y->t, &sz);
    MPI_Type_get_extent(y->t, &lb, &ex);
    MPI_Type_get_true_extent(y->t, &tlb, &tex);
    if (g_rank == 0)
      printf("m %d 0 %d %ld %ld %ld %ld\n", y->id, sz, (long)lb, (long)ex, (long)tlb, (long)tex);
    y->ext    = (ex == y->ext1) ? y->ext1 : y->ext0;
    y->extbad = ex != y->ext0 && ex != y->ext1;
  }
  fclose(f);
  static const int counts[] = {0, 1, 2, 3, 5};
  for (int i = 0; i < NT; i++) {
    if (!T[i].built || T[i].skip)
      continue;
    for (int c = 0; c < 5; c++)
      if (counts[c] <= T[i].maxc && !(T[i].extbad && counts[c] > 1))
        test(&T[i], counts[c]);
  }
  MPI_Barrier(MPI_COMM_WORLD);
  printf("DONE %d\n", g_rank);
  MPI_Finalize();
  return 0;
}
