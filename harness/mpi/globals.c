/* E5 harness for C36: every rank owns its copy of the global and static variables (smpi/privatization mmap | dlopen).
 * argv: seed nsteps mode       (mode: "mmap" | "dlopen" | "no"; only used to tag thread-local cells as unjudged under mmap/no)
 * Linked with globals2.c (second translation unit) and libverifglob.a (static library, globlib.c).
 *
 * Every variable is a "cell" (address + size). Each rank keeps a shadow copy of all its cells in heap memory it
 * allocated itself. A step = (1) the rank rewrites a rank-chosen subset of its cells with words w(rank, step, cell, k)
 * and updates the shadow, (2) all ranks go through one rank-switching call (barrier, p2p from/to GLOBAL buffers, waits,
 * sleeps, computations, collectives from/to global buffers, a user-defined reduction reading a global), updating the
 * shadow of global receive buffers with what the sender is known to have sent, (3) the rank compares EVERY byte of every
 * cell with its shadow. A mismatch is decoded: value written by another rank (foreign), initial value (lost), other.
 * Lines: "BAD rule=... kind=... cell=... op=... step=... rank=..."; "NOTE ..." (unjudged thread-local under mmap);
 * "SUM rank= steps= checks= bytes= writes= bad= notes="; rank 0 also prints "PLAN np= steps=". */
#include <mpi.h>
#include <signal.h>
#include <stdint.h>
#include <stdio.h>
#include <stdlib.h>
#include <string.h>
#include <unistd.h>
#include "globals_shared.h"

/* ---- the variables under test ------------------------------------------------------------------------------------ */
#define VG_DATA_INIT 12345
int vg_data = VG_DATA_INIT;  /* initialised, .data */
long vg_bss;                 /* zero, .bss */
static int vs_data = 777;    /* file static, .data */
static double vs_bss;        /* file static, .bss */
char vg_str[40] = "initial string in .data";
struct vg_rec {
  char c;
  int i;
  double d;
  char tail[13];
} vg_struct = {'x', 42, 2.5, "tail"};
static long vs_bigdata[2500] = {11, 22, 33}; /* 20000 bytes of .data: several pages */
static int vs_bigbss[5003];                  /* 20012 bytes of .bss */
int* const vg_cptr = &vg_data;               /* const pointer to a global (relocated read-only data) */
static long* vs_ptr = &vs_bigdata[100];      /* initialised pointer into a global array */
static __thread int vt_tls[4];               /* thread-local, zero */
static __thread int vt_tls_init = 99;        /* thread-local, initialised */
#define NOPS 18
#define SB_WORDS 1024
#define BIG_WORDS 18000 /* 72000 bytes: above the default smpi/send-is-detached-thresh */
unsigned vg_sbuf[SB_WORDS]; /* global MPI send buffer */
unsigned vg_rbuf[SB_WORDS]; /* global MPI receive buffer */
unsigned vg_bigs[BIG_WORDS];
static unsigned vs_bigr[BIG_WORDS];
int vg_myrank1; /* rank+1, read by the user-defined reduction */

static int* local_static_scalar(void)
{
  static int v = 31337;
  return &v;
}
static char* local_static_array(void)
{
  static char a[301];
  return a;
}

/* ---- machinery (lives on the stack / heap of each rank, never in globals that matter) ----------------------------- */
typedef struct {
  const char* name;
  const char* kind;
  unsigned char* p;
  long size;
  int tls;
  int mpibuf; /* 1 send buffer, 2 receive buffer: rewritten by the step logic, not by the random writes */
  unsigned char* shadow;
} cell_t;
#define MAXCELLS 40
typedef struct {
  cell_t c[MAXCELLS];
  int n;
  int rank, np, step;
  const char* op;
  const char* mode;
  long checks, bytes, writes, bad, notes;
  unsigned long long rng;
} st_t;

static int g_rank_sig = -1; /* for the crash handler only */
static const char* g_op_sig = "init";
static void on_sig(int s)
{
  char buf[200];
  int n = snprintf(buf, sizeof buf, "CRASH sig=%d op=%s rank=%d\n", s, g_op_sig, g_rank_sig);
  if (write(1, buf, n) < 0) {
  }
  _exit(70);
}

static unsigned w32(int rank, int step, int cell, long k)
{
  unsigned x = (unsigned)rank * 0x9E3779B1u + (unsigned)step * 0x85EBCA77u + (unsigned)cell * 0xC2B2AE3Du + (unsigned)k * 0x27D4EB2Fu + 0x165667B1u;
  x ^= x >> 15;
  x *= 0x2C1B3C6Du;
  x ^= x >> 12;
  x *= 0x297A2D39u;
  x ^= x >> 15;
  return x;
}
static unsigned char wbyte(int rank, int step, int cell, long i)
{
  return (unsigned char)(w32(rank, step, cell, i / 4) >> (8 * (i % 4)));
}
static unsigned rnd(st_t* s)
{
  s->rng = s->rng * 6364136223846793005ULL + 1442695040888963407ULL;
  return (unsigned)(s->rng >> 33);
}

static void add(st_t* s, const char* name, const char* kind, void* p, long size, int tls, int mpibuf)
{
  cell_t* c = &s->c[s->n++];
  c->name   = name;
  c->kind   = kind;
  c->p      = p;
  c->size   = size;
  c->tls    = tls;
  c->mpibuf = mpibuf;
  c->shadow = malloc(size);
}
static int cell_of(st_t* s, void* p)
{
  for (int i = 0; i < s->n; i++)
    if (s->c[i].p == (unsigned char*)p)
      return i;
  printf("HARNESS unknown cell\n");
  exit(3);
}

static void build_table(st_t* s)
{
  s->n = 0;
  add(s, "vg_data", "data", &vg_data, sizeof vg_data, 0, 0);
  add(s, "vg_bss", "bss", &vg_bss, sizeof vg_bss, 0, 0);
  add(s, "vs_data", "static-data", &vs_data, sizeof vs_data, 0, 0);
  add(s, "vs_bss", "static-bss", &vs_bss, sizeof vs_bss, 0, 0);
  add(s, "vg_str", "data", vg_str, sizeof vg_str, 0, 0);
  add(s, "vg_struct", "data", &vg_struct, sizeof vg_struct, 0, 0);
  add(s, "vs_bigdata", "big-data", vs_bigdata, 2000 * sizeof(long), 0, 0); /* [0,2000): the rest is reached through vs_ptr */
  add(s, "vs_bigbss", "big-bss", vs_bigbss, sizeof vs_bigbss, 0, 0);
  add(s, "vs_ptr_target", "via-pointer", vs_ptr + 2000, 8 * 50, 0, 0); /* vs_bigdata[2100..2150) through the initialised pointer */
  add(s, "local_static_scalar", "local-static", local_static_scalar(), sizeof(int), 0, 0);
  add(s, "local_static_array", "local-static", local_static_array(), 301, 0, 0);
  add(s, "vx_data", "other-tu", &vx_data, sizeof vx_data, 0, 0);
  add(s, "vx_bss", "other-tu", vx_bss, sizeof vx_bss, 0, 0);
  add(s, "vx_hidden", "other-tu-static", vx_hidden(), sizeof(int), 0, 0);
  add(s, "vx_table", "other-tu-static", vx_table(), VX_TABLE_N * sizeof(long), 0, 0);
  add(s, "vx_local_static", "other-tu-static", vx_local_static(), sizeof(int), 0, 0);
  add(s, "vl_counter", "static-lib", &vl_counter, sizeof vl_counter, 0, 0);
  add(s, "vl_table", "static-lib", vl_table(), VL_TABLE_N * sizeof(long), 0, 0);
  add(s, "vl_local_static", "static-lib", vl_local_static(), sizeof(double), 0, 0);
  add(s, "vt_tls", "thread-local", vt_tls, sizeof vt_tls, 1, 0);
  add(s, "vt_tls_init", "thread-local", &vt_tls_init, sizeof vt_tls_init, 1, 0);
  add(s, "vg_sbuf", "mpi-send-buffer", vg_sbuf, sizeof vg_sbuf, 0, 1);
  add(s, "vg_rbuf", "mpi-recv-buffer", vg_rbuf, sizeof vg_rbuf, 0, 2);
  add(s, "vg_bigs", "mpi-send-buffer", vg_bigs, sizeof vg_bigs, 0, 1);
  add(s, "vs_bigr", "mpi-recv-buffer", vs_bigr, sizeof vs_bigr, 0, 2);
  add(s, "vg_myrank1", "bss", &vg_myrank1, sizeof vg_myrank1, 0, 3);
}

/* the values the program text gives to each variable: checked before anything is written */
static int pristine(st_t* s, char* why, size_t n)
{
  int ok = 1;
#define EXPECT(cond, txt)                                                                                              \
  if (!(cond)) {                                                                                                       \
    if (ok)                                                                                                            \
      snprintf(why, n, "%s", txt);                                                                                     \
    ok = 0;                                                                                                            \
  }
  EXPECT(vg_data == VG_DATA_INIT, "vg_data");
  EXPECT(*vg_cptr == VG_DATA_INIT, "*vg_cptr");
  EXPECT(vg_cptr == &vg_data, "vg_cptr");
  EXPECT(vg_bss == 0, "vg_bss");
  EXPECT(vs_data == 777, "vs_data");
  EXPECT(vs_bss == 0.0, "vs_bss");
  EXPECT(strcmp(vg_str, "initial string in .data") == 0, "vg_str");
  EXPECT(vg_struct.c == 'x' && vg_struct.i == 42 && vg_struct.d == 2.5 && strcmp(vg_struct.tail, "tail") == 0, "vg_struct");
  EXPECT(vs_bigdata[0] == 11 && vs_bigdata[1] == 22 && vs_bigdata[2] == 33, "vs_bigdata[0..2]");
  for (int i = 3; i < 2500; i++)
    EXPECT(vs_bigdata[i] == 0, "vs_bigdata[3..]");
  for (int i = 0; i < 5003; i++)
    EXPECT(vs_bigbss[i] == 0, "vs_bigbss");
  EXPECT(vs_ptr == &vs_bigdata[100], "vs_ptr");
  EXPECT(*local_static_scalar() == 31337, "local_static_scalar");
  for (int i = 0; i < 301; i++)
    EXPECT(local_static_array()[i] == 0, "local_static_array");
  EXPECT(vx_pristine(), "globals2.c variables");
  EXPECT(vl_pristine(), "libverifglob.a variables");
  for (int i = 0; i < SB_WORDS; i++)
    EXPECT(vg_sbuf[i] == 0 && vg_rbuf[i] == 0, "vg_sbuf/vg_rbuf");
  for (int i = 0; i < BIG_WORDS; i++)
    EXPECT(vg_bigs[i] == 0 && vs_bigr[i] == 0, "vg_bigs/vs_bigr");
  EXPECT(vg_myrank1 == 0, "vg_myrank1");
  if (strcmp(s->mode, "dlopen") == 0) {
    EXPECT(vt_tls[0] == 0 && vt_tls[3] == 0 && vt_tls_init == 99, "thread-locals");
  }
  return ok;
}

static void write_cell(st_t* s, int ci, int rank, int step)
{
  cell_t* c = &s->c[ci];
  for (long i = 0; i < c->size; i++) {
    unsigned char b = wbyte(rank, step, ci, i);
    c->p[i]      = b;
    c->shadow[i] = b;
  }
  s->writes++;
}
static void expect_words(st_t* s, int ci, long w0, long nw, int from_rank, int step, int from_cell, long from_w0)
{
  /* the receive cell ci holds, from word w0 on, the words from_w0.. of cell from_cell as written by from_rank at step */
  cell_t* c = &s->c[ci];
  for (long k = 0; k < nw; k++) {
    unsigned v = w32(from_rank, step, from_cell, from_w0 + k);
    memcpy(c->shadow + 4 * (w0 + k), &v, 4);
  }
}

static int decode(st_t* s, cell_t* c, int ci, long i, int* fr, int* fs)
{
  /* who wrote the first wrong word?  candidates: every rank at every step so far, and the start-up pattern (99,-1) */
  long w = i / 4;
  int wide = c->size >= 4 * (w + 1);
  unsigned got = 0;
  if (wide)
    memcpy(&got, c->p + 4 * w, 4);
  for (int r = 0; r <= s->np; r++) {
    int rr = r == s->np ? 99 : r;
    for (int t = s->step; t >= -1; t--) {
      if ((rr == 99) != (t == -1))
        continue;
      for (int cc = 0; cc < s->n; cc++) {
        if (cc != ci && !c->mpibuf)
          continue;
        if (wide ? w32(rr, t, cc, w) == got : wbyte(rr, t, cc, i) == c->p[i]) {
          *fr = rr;
          *fs = t;
          return 1;
        }
      }
    }
  }
  return 0;
}

static void report(st_t* s, cell_t* c, int ci, long i)
{
  const char* rule = "corrupt";
  int fr = -1, fs = -1;
  if (c->mpibuf == 3) { /* vg_myrank1 holds rank+1 */
    int v;
    memcpy(&v, c->p, sizeof v);
    fr   = v - 1;
    rule = (fr >= 0 && fr < s->np) ? "foreign" : "corrupt";
  } else if (decode(s, c, ci, i, &fr, &fs))
    rule = fr == s->rank ? "stale-own" : fr == 99 ? "reverted-to-startup" : "foreign";
  if (c->tls && strcmp(s->mode, "dlopen") != 0) {
    s->notes++;
    if (s->notes <= 2)
      printf("NOTE unjudged thread-local cell=%s shared under %s op=%s step=%d rank=%d\n", c->name, s->mode, s->op, s->step, s->rank);
    memcpy(c->shadow, c->p, c->size); /* adopt what is there: the shadow follows the shared storage */
    return;
  }
  s->bad++;
  if (s->bad <= 6)
    printf("BAD rule=%s kind=%s cell=%s op=%s step=%d rank=%d from_rank=%d from_step=%d byte=%ld got=%02x want=%02x\n", rule, c->kind,
           c->name, s->op, s->step, s->rank, fr, fs, i, c->p[i], c->shadow[i]);
  memcpy(c->shadow, c->p, c->size); /* resynchronise so that one event is reported once */
}

static void verify(st_t* s)
{
  for (int ci = 0; ci < s->n; ci++) {
    cell_t* c = &s->c[ci];
    s->checks++;
    s->bytes += c->size;
    if (memcmp(c->p, c->shadow, c->size) != 0) {
      long i = 0;
      while (c->p[i] == c->shadow[i])
        i++;
      report(s, c, ci, i);
    }
  }
  /* the const pointer still designates this rank's own variable */
  if (*vg_cptr != vg_data || vg_cptr != &vg_data) {
    s->bad++;
    printf("BAD rule=pointer kind=const-pointer cell=vg_cptr op=%s step=%d rank=%d\n", s->op, s->step, s->rank);
  }
}

/* user-defined reduction: runs inside MPI calls; the global it reads must be the one of the rank executing it */
static void xor_op(void* in, void* inout, int* len, MPI_Datatype* dt)
{
  (void)dt;
  int r;
  MPI_Comm_rank(MPI_COMM_WORLD, &r);
  if (vg_myrank1 != r + 1)
    printf("BAD rule=foreign kind=bss cell=vg_myrank1 op=user-op-callback step=-2 rank=%d from_rank=%d\n", r, vg_myrank1 - 1);
  unsigned *a = in, *b = inout;
  for (int i = 0; i < *len; i++)
    b[i] ^= a[i];
}

int main(int argc, char** argv)
{
  st_t S;
  memset(&S, 0, sizeof S);
  setvbuf(stdout, NULL, _IOLBF, 0);
  signal(SIGSEGV, on_sig);
  signal(SIGBUS, on_sig);
  signal(SIGABRT, on_sig);
  signal(SIGFPE, on_sig);
  unsigned seed = argc > 1 ? (unsigned)atoi(argv[1]) : 1;
  int nsteps    = argc > 2 ? atoi(argv[2]) : 20;
  S.mode        = argc > 3 ? argv[3] : "dlopen";
  S.op          = "program-start";
  S.step        = -1;
  S.rank        = -1;
  char why[80]  = "";
  /* before MPI_Init: ranks start one after the other; whatever earlier ranks already wrote must not be visible here */
  int was_pristine = pristine(&S, why, sizeof why);
  build_table(&S);
  /* dirty everything right away with a rank-independent pattern (the rank is not known yet) */
  for (int ci = 0; ci < S.n; ci++)
    write_cell(&S, ci, 99, -1);
  MPI_Init(&argc, &argv);
  MPI_Comm_rank(MPI_COMM_WORLD, &S.rank);
  MPI_Comm_size(MPI_COMM_WORLD, &S.np);
  g_rank_sig = S.rank;
  if (!was_pristine) {
    S.bad++;
    printf("BAD rule=initial kind=initial-values cell=%s op=program-start step=-1 rank=%d\n", why, S.rank);
  }
  vg_myrank1 = S.rank + 1;
  memcpy(S.c[cell_of(&S, &vg_myrank1)].shadow, &vg_myrank1, sizeof(int));
  S.op = "MPI_Init";
  verify(&S);
  S.rng      = seed * 2654435761ULL + 12345; /* same stream on every rank: the plan */
  int rank = S.rank, np = S.np;
  int c_sb = cell_of(&S, vg_sbuf), c_rb = cell_of(&S, vg_rbuf), c_bs = cell_of(&S, vg_bigs), c_br = cell_of(&S, vs_bigr);
  unsigned* scratch = malloc(sizeof(unsigned) * SB_WORDS);
  MPI_Op xop;
  MPI_Op_create(xor_op, 1, &xop);
  MPI_Win win, win2;
  MPI_Win_create(vg_sbuf, sizeof vg_sbuf, sizeof(unsigned), MPI_INFO_NULL, MPI_COMM_WORLD, &win2);
  MPI_Win_create(vg_rbuf, sizeof vg_rbuf, sizeof(unsigned), MPI_INFO_NULL, MPI_COMM_WORLD, &win);
  if (rank == 0)
    printf("PLAN np=%d steps=%d mode=%s\n", np, nsteps, S.mode);
  int opcount[NOPS];
  const char* opname[NOPS];
  memset(opcount, 0, sizeof opcount);
  memset(opname, 0, sizeof opname);
  for (int step = 0; step < nsteps; step++) {
    S.step = step;
    int op = rnd(&S) % NOPS;
    int n  = 1 + rnd(&S) % SB_WORDS; /* words */
    int root = rnd(&S) % np;
    /* (1) rank-specific writes: own stream derived from (seed, rank, step) */
    unsigned long long own = (seed * 1000003ULL + rank) * 6364136223846793005ULL + step * 1442695040888963407ULL + 99;
    for (int ci = 0; ci < S.n; ci++) {
      own = own * 6364136223846793005ULL + 1442695040888963407ULL;
      if (S.c[ci].mpibuf == 3)
        continue;
      if (S.c[ci].mpibuf == 1 || ((own >> 40) % 3) != 0) /* send buffers always: receivers know what was sent */
        write_cell(&S, ci, rank, step);
    }
    vl_bump(); /* the library's own code writes its own static */
    memcpy(S.c[cell_of(&S, &vl_counter)].shadow, &vl_counter, sizeof vl_counter);
    /* (2) a call that lets other ranks run */
    MPI_Request rq[2];
    int flag;
    switch (op) {
      case 0:
        S.op = g_op_sig = "barrier";
        MPI_Barrier(MPI_COMM_WORLD);
        break;
      case 1: { /* blocking ping-pong between (2k, 2k+1) with the small global buffers */
        S.op = g_op_sig = "send-recv-pingpong";
        int peer = rank ^ 1;
        if (peer < np) {
          if (rank % 2 == 0) {
            MPI_Send(vg_sbuf, n, MPI_UNSIGNED, peer, step, MPI_COMM_WORLD);
            MPI_Recv(vg_rbuf, n, MPI_UNSIGNED, peer, step, MPI_COMM_WORLD, MPI_STATUS_IGNORE);
          } else {
            MPI_Recv(vg_rbuf, n, MPI_UNSIGNED, peer, step, MPI_COMM_WORLD, MPI_STATUS_IGNORE);
            MPI_Send(vg_sbuf, n, MPI_UNSIGNED, peer, step, MPI_COMM_WORLD);
          }
          expect_words(&S, c_rb, 0, n, peer, step, c_sb, 0);
        }
        break;
      }
      case 2: { /* ring with the big global buffers (above the detached threshold): Irecv, Isend, Waitall */
        S.op = g_op_sig = "isend-irecv-waitall-big";
        if (np > 1) {
          int to = (rank + 1) % np, from = (rank + np - 1) % np;
          MPI_Irecv(vs_bigr, BIG_WORDS, MPI_UNSIGNED, from, step, MPI_COMM_WORLD, &rq[0]);
          MPI_Isend(vg_bigs, BIG_WORDS, MPI_UNSIGNED, to, step, MPI_COMM_WORLD, &rq[1]);
          MPI_Waitall(2, rq, MPI_STATUSES_IGNORE);
          expect_words(&S, c_br, 0, BIG_WORDS, from, step, c_bs, 0);
        }
        break;
      }
      case 3: { /* ring Sendrecv with the small global buffers */
        S.op = g_op_sig = "sendrecv-ring";
        int to = (rank + 1) % np, from = (rank + np - 1) % np;
        MPI_Sendrecv(vg_sbuf, n, MPI_UNSIGNED, to, step, vg_rbuf, n, MPI_UNSIGNED, from, step, MPI_COMM_WORLD, MPI_STATUS_IGNORE);
        expect_words(&S, c_rb, 0, n, from, step, c_sb, 0);
        break;
      }
      case 4:
        S.op = g_op_sig = "smpi_execute";
        smpi_execute(1e-5 * (1 + (rank * 7 + step) % 5));
        break;
      case 5:
        S.op = g_op_sig = "usleep";
        usleep(100 * (1 + (rank * 3 + step) % 7));
        break;
      case 6: /* broadcast out of / into the same global buffer */
        S.op = g_op_sig = "bcast";
        MPI_Bcast(vg_sbuf, n, MPI_UNSIGNED, root, MPI_COMM_WORLD);
        if (rank != root)
          expect_words(&S, c_sb, 0, n, root, step, c_sb, 0);
        break;
      case 7: { /* allreduce(sum) global -> global; unsigned sums wrap, so the expected value is exact */
        S.op = g_op_sig = "allreduce";
        MPI_Allreduce(vg_sbuf, vg_rbuf, n, MPI_UNSIGNED, MPI_SUM, MPI_COMM_WORLD);
        for (int k = 0; k < n; k++) {
          unsigned v = 0;
          for (int r = 0; r < np; r++)
            v += w32(r, step, c_sb, k);
          memcpy(S.c[c_rb].shadow + 4 * k, &v, 4);
        }
        break;
      }
      case 8: { /* alltoall global -> global */
        S.op = g_op_sig = "alltoall";
        int chunk = 1 + (n - 1) % (SB_WORDS / np);
        MPI_Alltoall(vg_sbuf, chunk, MPI_UNSIGNED, vg_rbuf, chunk, MPI_UNSIGNED, MPI_COMM_WORLD);
        for (int r = 0; r < np; r++)
          expect_words(&S, c_rb, (long)r * chunk, chunk, r, step, c_sb, (long)rank * chunk);
        break;
      }
      case 9: { /* allgather global -> global */
        S.op = g_op_sig = "allgather";
        int chunk = 1 + (n - 1) % (SB_WORDS / np);
        MPI_Allgather(vg_sbuf, chunk, MPI_UNSIGNED, vg_rbuf, chunk, MPI_UNSIGNED, MPI_COMM_WORLD);
        for (int r = 0; r < np; r++)
          expect_words(&S, c_rb, (long)r * chunk, chunk, r, step, c_sb, 0);
        break;
      }
      case 10: { /* reduce with a user-defined operation that looks at a global of the executing rank */
        S.op = g_op_sig = "reduce-user-op";
        /* the receive buffer is only significant at the root: the others pass heap scratch space */
        MPI_Reduce(vg_sbuf, rank == root ? vg_rbuf : scratch, n, MPI_UNSIGNED, xop, root, MPI_COMM_WORLD);
        if (rank == root)
          for (int k = 0; k < n; k++) {
            unsigned v = 0;
            for (int r = 0; r < np; r++)
              v ^= w32(r, step, c_sb, k);
            memcpy(S.c[c_rb].shadow + 4 * k, &v, 4);
          }
        break;
      }
      case 11: { /* Irecv polled with MPI_Test + sleeps while the partner sends late */
        S.op = g_op_sig = "irecv-test-loop";
        int peer = rank ^ 1;
        if (peer < np) {
          MPI_Irecv(vg_rbuf, n, MPI_UNSIGNED, peer, step, MPI_COMM_WORLD, &rq[0]);
          usleep(50 * (1 + rank % 3));
          MPI_Isend(vg_sbuf, n, MPI_UNSIGNED, peer, step, MPI_COMM_WORLD, &rq[1]);
          flag = 0;
          while (!flag) {
            MPI_Test(&rq[0], &flag, MPI_STATUS_IGNORE);
            if (!flag)
              usleep(20);
          }
          MPI_Wait(&rq[1], MPI_STATUS_IGNORE);
          expect_words(&S, c_rb, 0, n, peer, step, c_sb, 0);
        }
        break;
      }
      case 12: { /* gather global -> global at a root */
        S.op = g_op_sig = "gather";
        int chunk = 1 + (n - 1) % (SB_WORDS / np);
        MPI_Gather(vg_sbuf, chunk, MPI_UNSIGNED, rank == root ? vg_rbuf : scratch, chunk, MPI_UNSIGNED, root, MPI_COMM_WORLD);
        if (rank == root)
          for (int r = 0; r < np; r++)
            expect_words(&S, c_rb, (long)r * chunk, chunk, r, step, c_sb, 0);
        break;
      }
      case 13: { /* scatter out of the root's global buffer into everybody's global buffer */
        S.op = g_op_sig = "scatter";
        int chunk = 1 + (n - 1) % (SB_WORDS / np);
        MPI_Scatter(vg_sbuf, chunk, MPI_UNSIGNED, vg_rbuf, chunk, MPI_UNSIGNED, root, MPI_COMM_WORLD);
        expect_words(&S, c_rb, 0, chunk, root, step, c_sb, (long)rank * chunk);
        break;
      }
      case 14: { /* inclusive scan(sum) global -> global */
        S.op = g_op_sig = "scan";
        MPI_Scan(vg_sbuf, vg_rbuf, n, MPI_UNSIGNED, MPI_SUM, MPI_COMM_WORLD);
        for (int k = 0; k < n; k++) {
          unsigned v = 0;
          for (int r = 0; r <= rank; r++)
            v += w32(r, step, c_sb, k);
          memcpy(S.c[c_rb].shadow + 4 * k, &v, 4);
        }
        break;
      }
      case 15: { /* one-sided: every rank puts its global send buffer into the next rank's global receive buffer */
        S.op = g_op_sig = "win-fence-put";
        int to = (rank + 1) % np, from = (rank + np - 1) % np;
        MPI_Win_fence(0, win);
        MPI_Put(vg_sbuf, n, MPI_UNSIGNED, to, 0, n, MPI_UNSIGNED, win);
        MPI_Win_fence(0, win);
        expect_words(&S, c_rb, 0, n, from, step, c_sb, 0);
        break;
      }
      case 16: { /* one-sided: every rank gets the previous rank's global send buffer into its own global receive buffer */
        S.op = g_op_sig = "win-fence-get";
        int from = (rank + np - 1) % np;
        MPI_Win_fence(0, win2);
        MPI_Get(vg_rbuf, n, MPI_UNSIGNED, from, 0, n, MPI_UNSIGNED, win2);
        MPI_Win_fence(0, win2);
        expect_words(&S, c_rb, 0, n, from, step, c_sb, 0);
        break;
      }
      default: { /* synchronous send of the big global buffer between (2k, 2k+1), alternating direction */
        S.op = g_op_sig = "ssend-recv-big";
        int peer = rank ^ 1;
        if (peer < np) {
          int first = (step + rank / 2) % 2;
          if ((rank % 2) == first) {
            MPI_Ssend(vg_bigs, BIG_WORDS, MPI_UNSIGNED, peer, step, MPI_COMM_WORLD);
          } else {
            MPI_Recv(vs_bigr, BIG_WORDS, MPI_UNSIGNED, peer, step, MPI_COMM_WORLD, MPI_STATUS_IGNORE);
            expect_words(&S, c_br, 0, BIG_WORDS, peer, step, c_bs, 0);
          }
        }
        break;
      }
    }
    opcount[op]++;
    opname[op] = S.op;
    if (argc > 4 && strcmp(argv[4], "selftest-corrupt") == 0 && step == 3 && rank == 1) {
      /* oracle self-test only: plant what rank 0 wrote at step 2 into rank 1's vs_bigbss, behind the shadow's back */
      int ci = cell_of(&S, vs_bigbss);
      for (int i = 0; i < 8; i++)
        S.c[ci].p[i] = wbyte(0, 2, ci, i);
    }
    /* (3) every byte of every variable against the shadow */
    verify(&S);
  }
  S.op = g_op_sig = "sleep-before-finalize";
  sleep(1 + rank % 3);
  verify(&S);
  S.op = g_op_sig = "finalize";
  MPI_Op_free(&xop);
  MPI_Win_free(&win);
  MPI_Win_free(&win2);
  MPI_Barrier(MPI_COMM_WORLD);
  verify(&S);
  if (rank == 0) {
    printf("OPS");
    for (int o = 0; o < NOPS; o++)
      if (opname[o])
        printf(" %s=%d", opname[o], opcount[o]);
    printf("\n");
  }
  printf("SUM rank=%d steps=%d checks=%ld bytes=%ld writes=%ld bad=%ld notes=%ld\n", rank, nsteps, S.checks, S.bytes, S.writes, S.bad, S.notes);
  MPI_Finalize();
  return 0;
}
