/* E5 harness for C35: transfers between SMPI_PARTIAL_SHARED_MALLOC buffers.
 * argv[1] = scenario file (whitespace separated integers), read by every rank:
 *   ncases
 *   per case: id src dst
 *             ssize snsh [start stop]*snsh        (snsh == -1: plain malloc, no shared region)
 *             rsize rnsh [start stop]*rnsh
 *             soff roff slen rlen smode rmode order
 * smode: 0 Send 1 Isend+Wait 2 Ssend 3 Issend+Wait 4 Send_init/Start/Wait 5 Sendrecv(send half) 6 Bsend 7 Isend+Test loop
 * rmode: 0 Recv 1 Irecv+Wait 2 Recv_init/Start/Wait 3 Irecv+Test loop 4 Sendrecv(recv half) 5 Probe+Recv
 * order: 0 none, 1 receive posted first (sender sleeps), 2 send posted first (receiver sleeps)
 * The program judges nothing. For each case the receiver prints the classification of every byte of its buffer as a
 * run-length list ("R <id> <class> <begin> <end> ..."), the sender the same for its own buffer ("S <id> ...").
 * Classes of the receive buffer: H declared shared (not looked at), U private here but the byte sent to it was a shared
 * one (not looked at), G still the receiver's fill pattern,
 * S the byte the sender had at the corresponding position of the message, X anything else.
 * Classes of the send buffer: H declared shared, O still the sender's fill pattern, X anything else.
 * Fill patterns are position dependent; sender bytes are even, receiver bytes odd, so S and G never coincide. */
#include <mpi.h>
#include <signal.h>
#include <stdio.h>
#include <stdlib.h>
#include <string.h>
#include <unistd.h>

static int g_case = -1, g_rank = -1;
static const char* g_op = "none";
static void on_sig(int s)
{
  char buf[200];
  int n = snprintf(buf, sizeof buf, "CRASH sig=%d case=%d op=%s rank=%d\n", s, g_case, g_op, g_rank);
  if (write(1, buf, n) < 0) {
  }
  _exit(70);
}

typedef struct {
  long size;
  int nsh;
  size_t* sh; /* 2*nsh offsets */
  unsigned char* mem;
} buf_t;

static unsigned char pat(long id, long i, int recv)
{
  unsigned x = (unsigned)i * 2654435761u + (unsigned)id * 40503u + 977u;
  x ^= x >> 15;
  x *= 2246822519u;
  x ^= x >> 13;
  return (unsigned char)(((x >> 8) & 0x7f) << 1 | (recv ? 1 : 0));
}

static int is_shared(const buf_t* b, long i)
{
  for (int k = 0; k < b->nsh; k++)
    if (i >= (long)b->sh[2 * k] && i < (long)b->sh[2 * k + 1])
      return 1;
  return 0;
}

static long rd(FILE* f)
{
  long v;
  if (fscanf(f, "%ld", &v) != 1) {
    printf("HARNESS bad scenario file\n");
    exit(3);
  }
  return v;
}

static void read_buf(FILE* f, buf_t* b)
{
  b->size = rd(f);
  b->nsh  = (int)rd(f);
  b->sh   = NULL;
  if (b->nsh > 0) {
    b->sh = malloc(sizeof(size_t) * 2 * b->nsh);
    for (int k = 0; k < 2 * b->nsh; k++)
      b->sh[k] = (size_t)rd(f);
  }
  b->mem = NULL;
}

static void alloc_buf(buf_t* b)
{
  if (b->nsh < 0) {
    b->mem = malloc(b->size > 0 ? b->size : 1);
    b->nsh = 0;
  } else {
    g_op   = "partial_shared_malloc";
    b->mem = SMPI_PARTIAL_SHARED_MALLOC(b->size, b->sh, b->nsh);
  }
}

static int g_nofree = 0;
static void free_buf(buf_t* b, int was_malloc)
{
  if (was_malloc)
    free(b->mem);
  else if (!g_nofree) {
    g_op = "shared_free";
    SMPI_SHARED_FREE(b->mem);
  }
  free(b->sh);
}

static void fill(const buf_t* b, long id, int recv)
{
  for (long i = 0; i < b->size; i++)
    b->mem[i] = pat(id, i, recv);
}

#define LINE_MAX_RUNS 4000
static void emit(const char* tag, long id, const buf_t* b, int recv, long roff, long soff, long mlen, const buf_t* sender)
{
  /* run-length classification */
  printf("%s %ld", tag, id);
  long start = 0, runs = 0;
  char cur = 0;
  for (long i = 0; i <= b->size; i++) {
    char c = 0;
    if (i < b->size) {
      if (is_shared(b, i))
        c = 'H';
      else if (recv && i >= roff && i < roff + mlen && is_shared(sender, soff + (i - roff)))
        c = 'U'; /* the byte sent here was a shared one: content undefined, not looked at */
      else if (b->mem[i] == pat(id, i, recv))
        c = recv ? 'G' : 'O';
      else if (recv && i >= roff && i < roff + mlen && b->mem[i] == pat(id, soff + (i - roff), 0))
        c = 'S';
      else
        c = 'X';
    }
    if (c != cur) {
      if (cur) {
        if (runs < LINE_MAX_RUNS)
          printf(" %c %ld %ld", cur, start, i);
        runs++;
      }
      cur   = c;
      start = i;
    }
  }
  printf(" E %ld\n", runs);
}

int main(int argc, char** argv)
{
  MPI_Init(&argc, &argv);
  setvbuf(stdout, NULL, _IOLBF, 0);
  signal(SIGFPE, on_sig);
  signal(SIGSEGV, on_sig);
  signal(SIGBUS, on_sig);
  signal(SIGABRT, on_sig);
  int wr, wn;
  MPI_Comm_rank(MPI_COMM_WORLD, &wr);
  MPI_Comm_size(MPI_COMM_WORLD, &wn);
  g_rank  = wr;
  FILE* f = fopen(argv[1], "r");
  if (!f) {
    printf("HARNESS cannot open scenario\n");
    return 3;
  }
  long ncases = rd(f);
  g_nofree    = argc > 2;
  static char bsendbuf[1 << 16];
  for (long cs = 0; cs < ncases; cs++) {
    long id  = rd(f);
    int src  = (int)rd(f);
    int dst  = (int)rd(f);
    buf_t sb, rb;
    read_buf(f, &sb);
    read_buf(f, &rb);
    long soff = rd(f), roff = rd(f), slen = rd(f), rlen = rd(f);
    int smode = (int)rd(f), rmode = (int)rd(f), order = (int)rd(f);
    int s_malloc = sb.nsh < 0, r_malloc = rb.nsh < 0;
    g_case = (int)id;
    g_op   = "alloc";
    if (wr == src) {
      alloc_buf(&sb);
      fill(&sb, id, 0);
    }
    g_op = "barrier";
    MPI_Barrier(MPI_COMM_WORLD);
    if (wr == dst) {
      alloc_buf(&rb);
      fill(&rb, id, 1);
    }
    g_op = "barrier";
    MPI_Barrier(MPI_COMM_WORLD);
    int tag = 100 + (int)(id % 1000);
    MPI_Request rq = MPI_REQUEST_NULL, rq2 = MPI_REQUEST_NULL;
    MPI_Status st;
    int flag;
    /* a self message needs a non-blocking side: the generator guarantees it */
    if (wr == dst && src == dst && (rmode == 1 || rmode == 3)) {
      g_op = "irecv-self";
      MPI_Irecv(rb.mem + roff, (int)rlen, MPI_BYTE, src, tag, MPI_COMM_WORLD, &rq2);
    }
    if (wr == src) {
      if (order == 1)
        usleep(20000);
      unsigned char* p = sb.mem + soff;
      switch (smode) {
        case 0:
          g_op = "send";
          MPI_Send(p, (int)slen, MPI_BYTE, dst, tag, MPI_COMM_WORLD);
          break;
        case 1:
          g_op = "isend";
          MPI_Isend(p, (int)slen, MPI_BYTE, dst, tag, MPI_COMM_WORLD, &rq);
          break;
        case 2:
          g_op = "ssend";
          MPI_Ssend(p, (int)slen, MPI_BYTE, dst, tag, MPI_COMM_WORLD);
          break;
        case 3:
          g_op = "issend";
          MPI_Issend(p, (int)slen, MPI_BYTE, dst, tag, MPI_COMM_WORLD, &rq);
          break;
        case 4:
          g_op = "send_init";
          MPI_Send_init(p, (int)slen, MPI_BYTE, dst, tag, MPI_COMM_WORLD, &rq);
          MPI_Start(&rq);
          break;
        case 5:
          g_op = "sendrecv-send";
          MPI_Sendrecv(p, (int)slen, MPI_BYTE, dst, tag, NULL, 0, MPI_BYTE, MPI_PROC_NULL, 0, MPI_COMM_WORLD, &st);
          break;
        case 6:
          g_op = "bsend";
          MPI_Buffer_attach(bsendbuf, sizeof bsendbuf);
          MPI_Bsend(p, (int)slen, MPI_BYTE, dst, tag, MPI_COMM_WORLD);
          {
            void* bb;
            int bs;
            MPI_Buffer_detach(&bb, &bs);
          }
          break;
        default:
          g_op = "isend-test";
          MPI_Isend(p, (int)slen, MPI_BYTE, dst, tag, MPI_COMM_WORLD, &rq);
          break;
      }
    }
    if (wr == dst) {
      if (order == 2 && src != dst)
        usleep(20000);
      unsigned char* p = rb.mem + roff;
      if (src == dst && (rmode == 1 || rmode == 3)) {
        /* already posted */
      } else
        switch (rmode) {
          case 0:
            g_op = "recv";
            MPI_Recv(p, (int)rlen, MPI_BYTE, src, tag, MPI_COMM_WORLD, &st);
            break;
          case 1:
            g_op = "irecv";
            MPI_Irecv(p, (int)rlen, MPI_BYTE, src, tag, MPI_COMM_WORLD, &rq2);
            break;
          case 2:
            g_op = "recv_init";
            MPI_Recv_init(p, (int)rlen, MPI_BYTE, src, tag, MPI_COMM_WORLD, &rq2);
            MPI_Start(&rq2);
            break;
          case 3:
            g_op = "irecv-test";
            MPI_Irecv(p, (int)rlen, MPI_BYTE, src, tag, MPI_COMM_WORLD, &rq2);
            break;
          case 4:
            g_op = "sendrecv-recv";
            MPI_Sendrecv(NULL, 0, MPI_BYTE, MPI_PROC_NULL, 0, p, (int)rlen, MPI_BYTE, src, tag, MPI_COMM_WORLD, &st);
            break;
          default: {
            g_op = "probe";
            MPI_Probe(src, tag, MPI_COMM_WORLD, &st);
            g_op = "recv-after-probe";
            MPI_Recv(p, (int)rlen, MPI_BYTE, src, tag, MPI_COMM_WORLD, &st);
          }
        }
    }
    /* completion */
    if (wr == dst && rq2 != MPI_REQUEST_NULL) {
      if (rmode == 3) {
        g_op = "test-recv";
        flag = 0;
        while (!flag) {
          MPI_Test(&rq2, &flag, &st);
          if (!flag)
            usleep(1000);
        }
      } else {
        g_op = "wait-recv";
        MPI_Wait(&rq2, &st);
        if (rmode == 2 && rq2 != MPI_REQUEST_NULL)
          MPI_Request_free(&rq2);
      }
    }
    if (wr == src && rq != MPI_REQUEST_NULL) {
      if (smode == 7) {
        g_op = "test-send";
        flag = 0;
        while (!flag) {
          MPI_Test(&rq, &flag, &st);
          if (!flag)
            usleep(1000);
        }
      } else {
        g_op = "wait-send";
        MPI_Wait(&rq, &st);
        if (smode == 4 && rq != MPI_REQUEST_NULL)
          MPI_Request_free(&rq);
      }
    }
    g_op = "barrier-after";
    MPI_Barrier(MPI_COMM_WORLD);
    long mlen = slen < rlen ? slen : rlen;
    g_op      = "emit";
    if (wr == dst)
      emit("R", id, &rb, 1, roff, soff, mlen, &sb);
    if (wr == src)
      emit("S", id, &sb, 0, 0, 0, 0, NULL);
    MPI_Barrier(MPI_COMM_WORLD);
    if (wr == src)
      free_buf(&sb, s_malloc);
    else
      free(sb.sh);
    if (wr == dst)
      free_buf(&rb, r_malloc);
    else
      free(rb.sh);
    g_op = "barrier-end";
    MPI_Barrier(MPI_COMM_WORLD);
  }
  fclose(f);
  g_op = "finalize";
  MPI_Barrier(MPI_COMM_WORLD);
  if (wr == 0)
    printf("DONE %ld\n", ncases);
  MPI_Finalize();
  return 0;
}
