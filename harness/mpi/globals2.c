/* C36 harness, second translation unit: globals and statics that globals.c only reaches through the linker */
#include "globals_shared.h"
int vx_data = -5;
int vx_bss[700];
static int vx_hidden_var = 4242;
static long vx_table_var[VX_TABLE_N] = {7};
int* vx_hidden(void)
{
  return &vx_hidden_var;
}
long* vx_table(void)
{
  return vx_table_var;
}
int* vx_local_static(void)
{
  static int v = 606;
  return &v;
}
int vx_pristine(void)
{
  if (vx_data != -5 || vx_hidden_var != 4242 || vx_table_var[0] != 7 || *vx_local_static() != 606)
    return 0;
  for (int i = 0; i < 700; i++)
    if (vx_bss[i] != 0)
      return 0;
  for (int i = 1; i < VX_TABLE_N; i++)
    if (vx_table_var[i] != 0)
      return 0;
  return 1;
}
