/* E5 harness for C37: a script-interpreted MPI program restricted to the calls the SMPI trace-replay tool supports.
 * argv[1] = script file. One op per line: "<rank|*> <op> <args...>"; every rank executes, in file order, the lines
 * addressed to it (or to '*'). After each op the rank records the simulated date (MPI_Wtime; run with smpi/wtime:0 so
 * that reading the clock costs nothing). At the end every rank prints
 *     A <rank> <idx> <op> <emits> <date %.17g> <aux>
 * (<emits>=1 when the call produces one line in the time-independent trace: a wait/test on a null request produces
 * none) and  F <rank> <date just before MPI_Finalize>,  then after MPI_Finalize  Z <rank>.
 *
 * ops (datatypes by SMPI id: 0 double, 1 int, 2 char, 3 short, 4 long, 5 float, 6 byte, 7 long long, 9 uchar, 14 long double):
 *   send dst tag count dt | recv src tag count dt | isend dst tag count dt slot | irecv src tag count dt slot
 *   wait slot | test slot | waitall | sendrecv scount dst stag rcount src rtag sdt rdt
 *   barrier | bcast count root dt | reduce count root dt | allreduce count dt | scan count dt | exscan count dt
 *   alltoall count dt | gather count root dt | scatter count root dt | allgather count dt
 *   alltoallv dt s_0..s_{n-1} r_0..r_{n-1} | gatherv root dt c_0..c_{n-1} | scatterv root dt c_0..c_{n-1}
 *   allgatherv dt c_0..c_{n-1} | reducescatter dt c_0..c_{n-1} | reducescatterblock count dt
 *   gatherz count root dt | scatterz count root dt   (same, but the ranks other than the root pass 0 for the
 *   count that MPI declares significant only at the root)
 *   sleep usec | compute flops
 */
#include <mpi.h>
#include <smpi/smpi.h>
#include <stdio.h>
#include <stdlib.h>
#include <string.h>
#include <unistd.h>

#define MAXOPS 4096
#define MAXSLOT 64
#define MAXNP 64

typedef struct {
  char name[24];
  int emits;
  double date;
  long aux;
} rec_t;

static MPI_Datatype dt_of(int id)
{
  switch (id) {
    case 0: return MPI_DOUBLE;
    case 1: return MPI_INT;
    case 2: return MPI_CHAR;
    case 3: return MPI_SHORT;
    case 4: return MPI_LONG;
    case 5: return MPI_FLOAT;
    case 6: return MPI_BYTE;
    case 7: return MPI_LONG_LONG;
    case 9: return MPI_UNSIGNED_CHAR;
    case 14: return MPI_LONG_DOUBLE;
    default: fprintf(stderr, "ti_prog: unknown datatype id %d\n", id); abort();
  }
}
static MPI_Op op_of(int id)
{
  return (id == 6 || id == 9) ? MPI_BOR : MPI_SUM;
}
static size_t sz_of(int id)
{
  int s;
  MPI_Type_size(dt_of(id), &s);
  return (size_t)s;
}
static void* buf(size_t n)
{
  void* p = calloc(n ? n : 1, 1);
  if (!p) {
    fprintf(stderr, "ti_prog: out of memory\n");
    abort();
  }
  return p;
}
static long sum(const int* v, int n)
{
  long s = 0;
  for (int i = 0; i < n; i++)
    s += v[i];
  return s;
}

int main(int argc, char** argv)
{
  MPI_Init(&argc, &argv);
  setvbuf(stdout, NULL, _IOLBF, 0);
  int me, np;
  MPI_Comm_rank(MPI_COMM_WORLD, &me);
  MPI_Comm_size(MPI_COMM_WORLD, &np);
  if (argc < 2 || np > MAXNP) {
    fprintf(stderr, "usage: ti_prog script (np<=%d)\n", MAXNP);
    MPI_Abort(MPI_COMM_WORLD, 2);
  }
  FILE* f = fopen(argv[1], "r");
  if (!f) {
    fprintf(stderr, "ti_prog: cannot open %s\n", argv[1]);
    MPI_Abort(MPI_COMM_WORLD, 2);
  }
  rec_t* recs = calloc(MAXOPS, sizeof(rec_t));
  int nrec    = 0;
  MPI_Request slots[MAXSLOT];
  void* sbuf[MAXSLOT];
  for (int i = 0; i < MAXSLOT; i++) {
    slots[i] = MPI_REQUEST_NULL;
    sbuf[i]  = NULL;
  }
  char* line = malloc(1 << 16);
  while (fgets(line, 1 << 16, f) && nrec < MAXOPS) {
    char* save = NULL;
    char* who  = strtok_r(line, " \t\n", &save);
    if (!who || who[0] == '#')
      continue;
    if (strcmp(who, "*") != 0 && atoi(who) != me)
      continue;
    char* op = strtok_r(NULL, " \t\n", &save);
    if (!op)
      continue;
    long a[2 * MAXNP + 16];
    int na = 0;
    for (char* t = strtok_r(NULL, " \t\n", &save); t && na < 2 * MAXNP + 16; t = strtok_r(NULL, " \t\n", &save))
      a[na++] = atol(t);
    rec_t* r = &recs[nrec++];
    snprintf(r->name, sizeof r->name, "%s", op);
    r->emits = 1;
    r->aux   = 0;
    if (!strcmp(op, "send")) {
      void* b = buf(a[2] * sz_of(a[3]));
      MPI_Send(b, a[2], dt_of(a[3]), a[0], a[1], MPI_COMM_WORLD);
      free(b);
    } else if (!strcmp(op, "recv")) {
      void* b = buf(a[2] * sz_of(a[3]));
      MPI_Recv(b, a[2], dt_of(a[3]), a[0], a[1], MPI_COMM_WORLD, MPI_STATUS_IGNORE);
      free(b);
    } else if (!strcmp(op, "isend")) {
      int s   = a[4];
      sbuf[s] = buf(a[2] * sz_of(a[3]));
      MPI_Isend(sbuf[s], a[2], dt_of(a[3]), a[0], a[1], MPI_COMM_WORLD, &slots[s]);
    } else if (!strcmp(op, "irecv")) {
      int s   = a[4];
      sbuf[s] = buf(a[2] * sz_of(a[3]));
      MPI_Irecv(sbuf[s], a[2], dt_of(a[3]), a[0], a[1], MPI_COMM_WORLD, &slots[s]);
    } else if (!strcmp(op, "wait")) {
      int s    = a[0];
      r->emits = slots[s] != MPI_REQUEST_NULL;
      MPI_Wait(&slots[s], MPI_STATUS_IGNORE);
      free(sbuf[s]);
      sbuf[s] = NULL;
    } else if (!strcmp(op, "test")) {
      int s    = a[0], flag = 0;
      r->emits = slots[s] != MPI_REQUEST_NULL;
      MPI_Test(&slots[s], &flag, MPI_STATUS_IGNORE);
      r->aux = flag;
      if (flag && sbuf[s]) {
        free(sbuf[s]);
        sbuf[s] = NULL;
      }
    } else if (!strcmp(op, "waitall")) {
      /* the replay tool's waitall waits for every pending request of the rank: so does this one */
      MPI_Request tmp[MAXSLOT];
      int idx[MAXSLOT];
      int n = 0;
      for (int s = 0; s < MAXSLOT; s++)
        if (slots[s] != MPI_REQUEST_NULL) {
          idx[n]   = s;
          tmp[n++] = slots[s];
        }
      r->aux = n;
      MPI_Waitall(n, tmp, MPI_STATUSES_IGNORE);
      for (int i = 0; i < n; i++) {
        slots[idx[i]] = MPI_REQUEST_NULL;
        free(sbuf[idx[i]]);
        sbuf[idx[i]] = NULL;
      }
    } else if (!strcmp(op, "sendrecv")) {
      void* sb = buf(a[0] * sz_of(a[6]));
      void* rb = buf(a[3] * sz_of(a[7]));
      MPI_Sendrecv(sb, a[0], dt_of(a[6]), a[1], a[2], rb, a[3], dt_of(a[7]), a[4], a[5], MPI_COMM_WORLD,
                   MPI_STATUS_IGNORE);
      free(sb);
      free(rb);
    } else if (!strcmp(op, "barrier")) {
      MPI_Barrier(MPI_COMM_WORLD);
    } else if (!strcmp(op, "bcast")) {
      void* b = buf(a[0] * sz_of(a[2]));
      MPI_Bcast(b, a[0], dt_of(a[2]), a[1], MPI_COMM_WORLD);
      free(b);
    } else if (!strcmp(op, "reduce")) {
      void* sb = buf(a[0] * sz_of(a[2]));
      void* rb = buf(a[0] * sz_of(a[2]));
      MPI_Reduce(sb, rb, a[0], dt_of(a[2]), op_of(a[2]), a[1], MPI_COMM_WORLD);
      free(sb);
      free(rb);
    } else if (!strcmp(op, "allreduce") || !strcmp(op, "scan") || !strcmp(op, "exscan")) {
      void* sb = buf(a[0] * sz_of(a[1]));
      void* rb = buf(a[0] * sz_of(a[1]));
      if (op[0] == 'a')
        MPI_Allreduce(sb, rb, a[0], dt_of(a[1]), op_of(a[1]), MPI_COMM_WORLD);
      else if (op[0] == 's')
        MPI_Scan(sb, rb, a[0], dt_of(a[1]), op_of(a[1]), MPI_COMM_WORLD);
      else
        MPI_Exscan(sb, rb, a[0], dt_of(a[1]), op_of(a[1]), MPI_COMM_WORLD);
      free(sb);
      free(rb);
    } else if (!strcmp(op, "alltoall")) {
      void* sb = buf(a[0] * sz_of(a[1]) * np);
      void* rb = buf(a[0] * sz_of(a[1]) * np);
      MPI_Alltoall(sb, a[0], dt_of(a[1]), rb, a[0], dt_of(a[1]), MPI_COMM_WORLD);
      free(sb);
      free(rb);
    } else if (!strcmp(op, "gather") || !strcmp(op, "gatherz")) {
      void* sb = buf(a[0] * sz_of(a[2]));
      void* rb = buf(a[0] * sz_of(a[2]) * np);
      int rc   = (op[6] == 'z' && me != a[1]) ? 0 : a[0];
      MPI_Gather(sb, a[0], dt_of(a[2]), rb, rc, dt_of(a[2]), a[1], MPI_COMM_WORLD);
      free(sb);
      free(rb);
    } else if (!strcmp(op, "scatter") || !strcmp(op, "scatterz")) {
      void* sb = buf(a[0] * sz_of(a[2]) * np);
      void* rb = buf(a[0] * sz_of(a[2]));
      int sc   = (op[7] == 'z' && me != a[1]) ? 0 : a[0];
      MPI_Scatter(sb, sc, dt_of(a[2]), rb, a[0], dt_of(a[2]), a[1], MPI_COMM_WORLD);
      free(sb);
      free(rb);
    } else if (!strcmp(op, "allgather")) {
      void* sb = buf(a[0] * sz_of(a[1]));
      void* rb = buf(a[0] * sz_of(a[1]) * np);
      MPI_Allgather(sb, a[0], dt_of(a[1]), rb, a[0], dt_of(a[1]), MPI_COMM_WORLD);
      free(sb);
      free(rb);
    } else if (!strcmp(op, "alltoallv")) {
      int sc[MAXNP], rc[MAXNP], sd[MAXNP], rd[MAXNP];
      for (int i = 0; i < np; i++) {
        sc[i] = a[1 + i];
        rc[i] = a[1 + np + i];
      }
      sd[0] = rd[0] = 0;
      for (int i = 1; i < np; i++) {
        sd[i] = sd[i - 1] + sc[i - 1];
        rd[i] = rd[i - 1] + rc[i - 1];
      }
      void* sb = buf(sum(sc, np) * sz_of(a[0]));
      void* rb = buf(sum(rc, np) * sz_of(a[0]));
      MPI_Alltoallv(sb, sc, sd, dt_of(a[0]), rb, rc, rd, dt_of(a[0]), MPI_COMM_WORLD);
      free(sb);
      free(rb);
    } else if (!strcmp(op, "gatherv") || !strcmp(op, "scatterv")) {
      int c[MAXNP], d[MAXNP];
      for (int i = 0; i < np; i++)
        c[i] = a[2 + i];
      d[0] = 0;
      for (int i = 1; i < np; i++)
        d[i] = d[i - 1] + c[i - 1];
      void* big   = buf(sum(c, np) * sz_of(a[1]));
      void* small = buf(c[me] * sz_of(a[1]));
      if (op[0] == 'g')
        MPI_Gatherv(small, c[me], dt_of(a[1]), big, c, d, dt_of(a[1]), a[0], MPI_COMM_WORLD);
      else
        MPI_Scatterv(big, c, d, dt_of(a[1]), small, c[me], dt_of(a[1]), a[0], MPI_COMM_WORLD);
      free(big);
      free(small);
    } else if (!strcmp(op, "allgatherv") || !strcmp(op, "reducescatter")) {
      int c[MAXNP], d[MAXNP];
      for (int i = 0; i < np; i++)
        c[i] = a[1 + i];
      d[0] = 0;
      for (int i = 1; i < np; i++)
        d[i] = d[i - 1] + c[i - 1];
      void* big   = buf(sum(c, np) * sz_of(a[0]));
      void* small = buf(c[me] * sz_of(a[0]));
      if (op[0] == 'a')
        MPI_Allgatherv(small, c[me], dt_of(a[0]), big, c, d, dt_of(a[0]), MPI_COMM_WORLD);
      else
        MPI_Reduce_scatter(big, small, c, dt_of(a[0]), op_of(a[0]), MPI_COMM_WORLD);
      free(big);
      free(small);
    } else if (!strcmp(op, "reducescatterblock")) {
      void* big   = buf(a[0] * np * sz_of(a[1]));
      void* small = buf(a[0] * sz_of(a[1]));
      MPI_Reduce_scatter_block(big, small, a[0], dt_of(a[1]), op_of(a[1]), MPI_COMM_WORLD);
      free(big);
      free(small);
    } else if (!strcmp(op, "sleep")) {
      usleep((useconds_t)a[0]);
    } else if (!strcmp(op, "compute")) {
      smpi_execute_flops((double)a[0]);
    } else {
      fprintf(stderr, "ti_prog: unknown op '%s'\n", op);
      MPI_Abort(MPI_COMM_WORLD, 3);
    }
    r->date = MPI_Wtime();
  }
  fclose(f);
  double fin = MPI_Wtime();
  for (int i = 0; i < nrec; i++)
    printf("A %d %d %s %d %.17g %ld\n", me, i, recs[i].name, recs[i].emits, recs[i].date, recs[i].aux);
  printf("F %d %.17g\n", me, fin);
  free(recs);
  free(line);
  MPI_Finalize();
  printf("Z %d\n", me);
  return 0;
}
