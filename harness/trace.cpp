// Harness for C47 (Paje traces are well formed). One scenario per process, read from stdin; the observation is the
// trace file written by SimGrid (--cfg=tracing/filename:...), validated offline by lib/verif/oracles/paje.py.
// stdout only carries a coarse log (END <clock>, EXC lines) used to tell a finished run from an aborted one.
//
// Platform (names are free strings without blanks):
//   Z <name> <parent|->                                  Full netzone under <parent> ("-" = under the root)
//   H <zone> <name> <cores> <np> <speed>...              host
//   L <zone> <name> <bw> <lat> <S|F|D>                   link: Shared, Fatpipe, split-Duplex
//   RT <zone> <name>                                     router
//   GW <zone> <netpoint>                                 gateway of a zone
//   R <zone> <src> <dst> <n> (<link> <N|U|D>)*           symmetrical route between two netpoints (hosts/routers) of <zone>
//   ZR <zone> <srczone> <dstzone> <n> (<link> <N|U|D>)*  symmetrical route between two child zones of <zone>
//   D <host> <name> <rbw> <wbw>                          disk
//   P <S|B|A|H|K> <resource> <loop> <n> (<date> <value>)*   profile: host Speed, link Bandwidth, link lAtency, Host state, linK state
//   SEAL <zone>                                          seal a zone (children first); X = seal the root, end of platform
// Declarations done from main() before Engine::run():
//   cat <name> <color|->   hvar|lvar|vvar <name> <color|->   markt <type>   markv <type> <value> <color|->
//   hst <state>            hsv <state> <value> <color>
//   vmplugin                                             sg_vm_live_migration_plugin_init()
//   M exec <host> <flops> <cat|->                        Exec started by maestro (before run)
//   M sendto <src> <dst> <bytes> <cat|->                 Comm::sendto_init()->start() by maestro
// Scripts (actor bodies):
//   script <k> <host> <initial 0|1> <daemon 0|1> <killtime|-1> <autorestart 0|1>    then one op per line, "end" closes the input
// Ops: see body().
#include <simgrid/Exception.hpp>
#include <simgrid/instr.h>
#include <simgrid/kernel/ProfileBuilder.hpp>
#include <simgrid/plugins/live_migration.h>
#include <simgrid/s4u.hpp>
#include <simgrid/s4u/VirtualMachine.hpp>
#include <xbt/config.hpp>
#include <cstdio>
#include <iostream>
#include <map>
#include <set>
#include <sstream>
#include <vector>
namespace sg4 = simgrid::s4u;

struct Op {
  std::vector<std::string> t;
};
struct Script {
  std::string host;
  int initial = 0, daemon = 0, autorestart = 0;
  double killtime = -1;
  std::vector<Op> ops;
};
static std::vector<Script> scripts;
static std::map<std::string, sg4::NetZone*> zones;
static std::map<std::string, sg4::Host*> hosts;
static std::map<std::string, sg4::Link*> links;
static std::map<std::string, sg4::SplitDuplexLink*> dlinks;
static std::map<std::string, sg4::Disk*> disks;
static std::map<std::string, sg4::VirtualMachine*> vms; // live VMs only
static std::map<int, sg4::ActorPtr> latest; // script -> most recent incarnation still alive (dropped at its termination)
static std::vector<sg4::ActorPtr> graveyard;
static std::set<long> dead;   // pids whose termination was signalled
static std::set<long> doomed; // pids the scripts themselves killed (directly or by turning their host off): left alone afterwards
static std::vector<sg4::ActivityPtr> maestro_acts;
static long executed_ops = 0;
static const long BUDGET = 800;
static int nprof         = 0;
// TRACE_host_state_*() have no "tracing disabled" safe switch (unlike the rest of the tracing API, they dereference the
// root container unconditionally): the harness only calls them when tracing is on, so that the same scenario can be run
// without tracing as a baseline.
static bool tracing_on = false;

static double now() { return sg4::Engine::get_clock(); }
static double D(const std::string& s) { return std::stod(s); }

static sg4::Host* host_or_vm(const std::string& n)
{
  if (auto it = hosts.find(n); it != hosts.end())
    return it->second;
  if (auto it = vms.find(n); it != vms.end()) // a VM is usable as a location only while it runs
    return it->second->get_state() == sg4::VirtualMachine::State::RUNNING ? it->second : nullptr;
  return nullptr;
}

static std::vector<sg4::LinkInRoute> read_links(std::istringstream& is, int n)
{
  std::vector<sg4::LinkInRoute> r;
  for (int i = 0; i < n; i++) {
    std::string ln, dir;
    is >> ln >> dir;
    if (dlinks.count(ln))
      r.emplace_back(dlinks[ln], dir == "U" ? sg4::LinkInRoute::Direction::UP : sg4::LinkInRoute::Direction::DOWN);
    else
      r.emplace_back(links.at(ln));
  }
  return r;
}

static void body(int k);

static void spawn(int k, sg4::Host* h)
{
  sg4::ActorPtr c = h->add_actor("s" + std::to_string(k), [k]() { body(k); });
  latest[k]       = c;
}

static void body(int k)
{
  sg4::ActorPtr self = sg4::Actor::self();
  latest[k]          = self;
  // user host-state pushes of this incarnation not yet popped
  std::vector<std::pair<std::string, std::string>> mypush;
  std::map<int, sg4::ActorPtr> my_suspended; // script -> the actor this incarnation suspended and has not resumed yet
  const auto& ops = scripts[k].ops;
  for (size_t i = 0; i < ops.size(); i++) {
    const auto& t = ops[i].t;
    if (++executed_ops > BUDGET)
      break;
    graveyard.clear();
    const std::string& n = t[0];
    try {
      if (n == "sleep") {
        sg4::this_actor::sleep_for(D(t[1]));
      } else if (n == "yield") {
        sg4::this_actor::yield();
      } else if (n == "exec") { // exec <flops> <cat|->
        auto x = sg4::this_actor::exec_init(D(t[1]));
        if (t[2] != "-")
          x->set_tracing_category(t[2]);
        x->start()->wait();
      } else if (n == "execs") { // execs <flops> <cat|-> <d1> <d2>: async exec suspended after d1 for d2
        auto x = sg4::this_actor::exec_init(D(t[1]));
        if (t[2] != "-")
          x->set_tracing_category(t[2]);
        x->start();
        sg4::this_actor::sleep_for(D(t[3]));
        if (not x->test()) {
          x->suspend();
          sg4::this_actor::sleep_for(D(t[4]));
          x->resume();
        }
        x->wait();
      } else if (n == "execon") { // execon <host> <flops> <cat|->: remote exec
        sg4::Host* h = host_or_vm(t[1]);
        if (h == nullptr || not h->is_on())
          continue;
        auto x = sg4::this_actor::exec_init(D(t[2]))->set_host(h);
        if (t[3] != "-")
          x->set_tracing_category(t[3]);
        x->start()->wait();
      } else if (n == "put") { // put <mbox> <bytes> <cat|-> <timeout>
        auto c = sg4::Mailbox::by_name(t[1])->put_init(new int(k), (uint64_t)D(t[2]));
        if (t[3] != "-")
          c->set_tracing_category(t[3]);
        c->start()->wait_for(D(t[4]));
      } else if (n == "get") { // get <mbox> <timeout>
        int* p = sg4::Mailbox::by_name(t[1])->get<int>(D(t[2]));
        delete p;
      } else if (n == "sendto") { // sendto <src> <dst> <bytes>
        sg4::Host *a = host_or_vm(t[1]), *b = host_or_vm(t[2]);
        if (a == nullptr || b == nullptr || not a->is_on() || not b->is_on())
          continue;
        sg4::Comm::sendto(a, b, (uint64_t)D(t[3]));
      } else if (n == "sendtoa") { // sendtoa <src> <dst> <bytes> <cat|-> <d>: async, sleep d, wait
        sg4::Host *a = host_or_vm(t[1]), *b = host_or_vm(t[2]);
        if (a == nullptr || b == nullptr || not a->is_on() || not b->is_on())
          continue;
        auto c = sg4::Comm::sendto_init(a, b)->set_payload_size((uint64_t)D(t[3]));
        if (t[4] != "-")
          c->set_tracing_category(t[4]);
        c->start();
        sg4::this_actor::sleep_for(D(t[5]));
        c->wait();
      } else if (n == "io") { // io <disk> <R|W> <bytes>
        auto* d = disks.at(t[1]);
        if (t[2] == "R")
          d->read((sg_size_t)D(t[3]));
        else
          d->write((sg_size_t)D(t[3]));
      } else if (n == "create") { // create <k>
        int c         = std::stoi(t[1]);
        sg4::Host* h  = host_or_vm(scripts[c].host);
        if (h == nullptr || not h->is_on())
          continue;
        spawn(c, h);
      } else if (n == "createon") { // createon <k> <host or vm>
        sg4::Host* h = host_or_vm(t[2]);
        if (h == nullptr || not h->is_on())
          continue;
        spawn(std::stoi(t[1]), h);
      } else if (n == "resume") { // resumes the very actor that this incarnation suspended for script <k> (if it still lives)
        auto it = my_suspended.find(std::stoi(t[1]));
        if (it == my_suspended.end())
          continue;
        sg4::ActorPtr a = it->second;
        my_suspended.erase(it);
        if (not doomed.count(a->get_pid()) && not dead.count(a->get_pid()) && a->is_suspended())
          a->resume();
      } else if (n == "kill" || n == "suspend" || n == "join") {
        auto it = latest.find(std::stoi(t[1])); // only live actors are in there: nothing is done on a terminated actor
        if (it == latest.end() || it->second.get() == self.get() || doomed.count(it->second->get_pid()))
          continue;
        sg4::ActorPtr a = it->second;
        if (n == "kill") {
          doomed.insert(a->get_pid());
          a->kill();
        } else if (n == "suspend") {
          if (not a->is_suspended()) {
            a->suspend();
            my_suspended[std::stoi(t[1])] = a;
          }
        } else
          a->join(D(t[2]));
      } else if (n == "suspendself") {
        sg4::this_actor::suspend();
      } else if (n == "migrate") { // migrate <host or vm>
        sg4::Host* h = host_or_vm(t[1]);
        if (h == nullptr || not h->is_on())
          continue;
        sg4::this_actor::set_host(h);
      } else if (n == "migrateother") { // migrateother <k> <host>
        auto it      = latest.find(std::stoi(t[1]));
        sg4::Host* h = host_or_vm(t[2]);
        if (it == latest.end() || it->second.get() == self.get() || h == nullptr || not h->is_on() ||
            doomed.count(it->second->get_pid()))
          continue;
        it->second->set_host(h);
      } else if (n == "exit") {
        sg4::this_actor::exit();
      } else if (n == "hostoff") {
        for (auto const& [k2, a] : latest)
          if (a->get_host() == hosts.at(t[1]) || (a->get_host() != nullptr && dynamic_cast<sg4::VirtualMachine*>(a->get_host()) != nullptr &&
                                                  static_cast<sg4::VirtualMachine*>(a->get_host())->get_pm() == hosts.at(t[1])))
            doomed.insert(a->get_pid());
        hosts.at(t[1])->turn_off();
      } else if (n == "hoston") {
        hosts.at(t[1])->turn_on();
      } else if (n == "linkoff") {
        links.at(t[1])->turn_off();
      } else if (n == "linkon") {
        links.at(t[1])->turn_on();
      } else if (n == "pstate") { // pstate <host> <index>
        hosts.at(t[1])->set_pstate(std::stoul(t[2]));
      } else if (n == "setbw") { // setbw <link> <bw>
        links.at(t[1])->set_bandwidth(D(t[2]));
      } else if (n == "vmcreate") { // vmcreate <name> <pm> <cores>
        sg4::Host* pm = hosts.at(t[2]);
        if (vms.count(t[1]) || not pm->is_on())
          continue;
        vms[t[1]] = pm->create_vm(t[1], std::stoi(t[3]));
      } else if (n == "vmstart" || n == "vmsuspend" || n == "vmresume" || n == "vmshutdown" || n == "vmdestroy" ||
                 n == "vmmigrate") {
        auto it = vms.find(t[1]);
        if (it == vms.end())
          continue;
        sg4::VirtualMachine* vm = it->second;
        auto st                 = vm->get_state();
        if (n == "vmshutdown" || n == "vmdestroy")
          for (auto const& [k2, a] : latest)
            if (a->get_host() == vm && a.get() != self.get())
              doomed.insert(a->get_pid());
        using S                 = sg4::VirtualMachine::State;
        if (n == "vmstart") {
          if (st == S::CREATED && vm->get_pm()->is_on())
            vm->start();
        } else if (n == "vmsuspend") {
          if (st == S::RUNNING && sg4::this_actor::get_host() != vm)
            vm->suspend();
        } else if (n == "vmresume") {
          if (st == S::SUSPENDED)
            vm->resume();
        } else if (n == "vmshutdown") {
          if (st == S::RUNNING && sg4::this_actor::get_host() != vm)
            vm->shutdown();
        } else if (n == "vmdestroy") {
          if (sg4::this_actor::get_host() != vm) {
            vms.erase(it);
            vm->destroy();
          }
        } else { // vmmigrate <name> <pm>
          sg4::Host* dst = hosts.at(t[2]);
          if (st == S::RUNNING && dst->is_on() && vm->get_pm() != dst && vm->get_pm()->is_on() &&
              sg4::this_actor::get_host() != vm)
            sg_vm_migrate(vm, dst);
        }
      } else if (n == "declcat") { // declcat <name> <color|->
        simgrid::instr::declare_tracing_category(t[1], t[2] == "-" ? "" : t[2] + " 0.5 0.5");
      } else if (n == "hvar") { // hvar <set|add|sub> <host> <var> <value>
        if (t[1] == "set")
          simgrid::instr::set_host_variable(t[2], t[3], D(t[4]));
        else if (t[1] == "add")
          simgrid::instr::add_host_variable(t[2], t[3], D(t[4]));
        else
          simgrid::instr::sub_host_variable(t[2], t[3], D(t[4]));
      } else if (n == "lvar") { // lvar <set|add|sub> <link> <var> <value>
        if (t[1] == "set")
          simgrid::instr::set_link_variable(t[2], t[3], D(t[4]));
        else if (t[1] == "add")
          simgrid::instr::add_link_variable(t[2], t[3], D(t[4]));
        else
          simgrid::instr::sub_link_variable(t[2], t[3], D(t[4]));
      } else if (n == "rvar") { // rvar <set|add|sub> <src> <dst> <var> <value>: link variable along a route
        if (t[1] == "set")
          simgrid::instr::set_link_variable(t[2], t[3], t[4], D(t[5]));
        else if (t[1] == "add")
          simgrid::instr::add_link_variable(t[2], t[3], t[4], D(t[5]));
        else
          simgrid::instr::sub_link_variable(t[2], t[3], t[4], D(t[5]));
      } else if (n == "vvar") { // vvar <set|add|sub> <vm> <var> <value>
        if (not vms.count(t[2]))
          continue;
        if (t[1] == "set")
          simgrid::instr::set_vm_variable(t[2], t[3], D(t[4]));
        else if (t[1] == "add")
          simgrid::instr::add_vm_variable(t[2], t[3], D(t[4]));
        else
          simgrid::instr::sub_vm_variable(t[2], t[3], D(t[4]));
      } else if (n == "mark") { // mark <type> <value>
        simgrid::instr::mark(t[1], t[2]);
      } else if ((n == "hpush" || n == "hpop" || n == "hsetst") && not tracing_on) {
        continue;
      } else if (n == "hpush") { // hpush <host> <state> <value>
        TRACE_host_push_state(t[1].c_str(), t[2].c_str(), t[3].c_str());
        mypush.emplace_back(t[1], t[2]);
      } else if (n == "hpop") { // pops the last user state this incarnation pushed (never more pops than pushes)
        if (mypush.empty())
          continue;
        auto [h, s] = mypush.back();
        mypush.pop_back();
        TRACE_host_pop_state(h.c_str(), s.c_str());
      } else if (n == "hsetst") { // hsetst <host> <state> <value>
        TRACE_host_set_state(t[1].c_str(), t[2].c_str(), t[3].c_str());
      } else {
        fprintf(stderr, "unknown op %s\n", n.c_str());
        abort();
      }
    } catch (const simgrid::ForcefulKillException&) {
      throw;
    } catch (const simgrid::TracingError& e) {
      printf("EXC tracing %s %s\n", n.c_str(), e.what());
      throw;
    } catch (const simgrid::Exception&) {
      printf("EXC sg %s\n", n.c_str()); // timeouts, host/network failures: expected in hostile scenarios
    }
  }
}

int main(int argc, char** argv)
{
  sg4::Engine e(&argc, argv);
  setvbuf(stdout, nullptr, _IOLBF, 0);
  std::string line;
  int cur        = -1;
  bool in_script = false;
  std::vector<std::vector<std::string>> decls;
  zones["-"] = e.get_netzone_root();
  while (std::getline(std::cin, line)) {
    std::istringstream is(line);
    std::string w;
    if (not(is >> w))
      continue;
    if (w == "end")
      break;
    if (w == "script") {
      Script s;
      is >> cur >> s.host >> s.initial >> s.daemon >> s.killtime >> s.autorestart;
      if ((int)scripts.size() <= cur)
        scripts.resize(cur + 1);
      scripts[cur] = s;
      in_script    = true;
    } else if (in_script) {
      Op op;
      op.t.push_back(w);
      std::string v;
      while (is >> v)
        op.t.push_back(v);
      scripts[cur].ops.push_back(op);
    } else if (w == "Z") {
      std::string name, parent;
      is >> name >> parent;
      zones[name] = zones.at(parent)->add_netzone_full(name);
    } else if (w == "H") {
      std::string z, name;
      int cores, np;
      is >> z >> name >> cores >> np;
      std::vector<double> sp(np);
      for (auto& s : sp)
        is >> s;
      hosts[name] = zones.at(z)->add_host(name, sp)->set_core_count(cores);
    } else if (w == "L") {
      std::string z, name, pol;
      double bw, lat;
      is >> z >> name >> bw >> lat >> pol;
      if (pol == "D") {
        dlinks[name] = zones.at(z)->add_split_duplex_link(name, bw);
        dlinks[name]->set_latency(lat);
        links[name + "_UP"]   = dlinks[name]->get_link_up();
        links[name + "_DOWN"] = dlinks[name]->get_link_down();
      } else {
        links[name] = zones.at(z)->add_link(name, bw)->set_latency(lat);
        if (pol == "F")
          links[name]->set_sharing_policy(sg4::Link::SharingPolicy::FATPIPE);
      }
    } else if (w == "RT") {
      std::string z, name;
      is >> z >> name;
      zones.at(z)->add_router(name);
    } else if (w == "GW") {
      std::string z, np;
      is >> z >> np;
      zones.at(z)->set_gateway(e.netpoint_by_name(np));
    } else if (w == "R") {
      std::string z, s, d;
      int n;
      is >> z >> s >> d >> n;
      auto r = read_links(is, n);
      zones.at(z)->add_route(e.netpoint_by_name(s), e.netpoint_by_name(d), r, true);
    } else if (w == "ZR") {
      std::string z, s, d;
      int n;
      is >> z >> s >> d >> n;
      auto r = read_links(is, n);
      zones.at(z)->add_route(zones.at(s), zones.at(d), r, true);
    } else if (w == "D") {
      std::string h, name;
      double r, wr;
      is >> h >> name >> r >> wr;
      disks[name] = hosts.at(h)->add_disk(name, r, wr);
    } else if (w == "P") {
      std::string kind, res;
      double loop;
      int n;
      is >> kind >> res >> loop >> n;
      std::ostringstream text;
      text.precision(17);
      for (int i = 0; i < n; i++) {
        double d, v;
        is >> d >> v;
        text << d << " " << v << "\n";
      }
      auto* p = simgrid::kernel::profile::ProfileBuilder::from_string("p" + std::to_string(nprof++) + "_" + res, text.str(), loop);
      if (kind == "S")
        hosts.at(res)->set_speed_profile(p);
      else if (kind == "H")
        hosts.at(res)->set_state_profile(p);
      else if (kind == "B")
        links.at(res)->set_bandwidth_profile(p);
      else if (kind == "A")
        links.at(res)->set_latency_profile(p);
      else
        links.at(res)->set_state_profile(p);
    } else if (w == "SEAL") {
      std::string z;
      is >> z;
      zones.at(z)->seal();
    } else if (w == "X") {
      e.get_netzone_root()->seal();
    } else {
      std::vector<std::string> t{w};
      std::string v;
      while (is >> v)
        t.push_back(v);
      decls.push_back(t);
    }
  }
  tracing_on = simgrid::config::get_value<bool>("tracing");
  auto col   = [](const std::string& c) { return c == "-" ? std::string("") : c + " 0.3 0.7"; };
  for (auto const& t : decls) {
    if (t[0] == "vmplugin")
      sg_vm_live_migration_plugin_init();
    else if (t[0] == "cat")
      simgrid::instr::declare_tracing_category(t[1], col(t[2]));
    else if (t[0] == "hvar")
      simgrid::instr::declare_host_variable(t[1], col(t[2]));
    else if (t[0] == "lvar")
      simgrid::instr::declare_link_variable(t[1], col(t[2]));
    else if (t[0] == "vvar")
      simgrid::instr::declare_vm_variable(t[1], col(t[2]));
    else if (t[0] == "markt")
      simgrid::instr::declare_mark(t[1]);
    else if (t[0] == "markv")
      simgrid::instr::declare_mark_value(t[1], t[2], t[3] == "-" ? "1 1 1" : t[3] + " 0.1 0.9");
    else if ((t[0] == "hst" || t[0] == "hsv") && not tracing_on)
      continue;
    else if (t[0] == "hst")
      TRACE_host_state_declare(t[1].c_str());
    else if (t[0] == "hsv")
      TRACE_host_state_declare_value(t[1].c_str(), t[2].c_str(), (t[3] + " 0.2 0.2").c_str());
    else if (t[0] == "M" && t[1] == "exec") {
      auto x = sg4::Exec::init()->set_flops_amount(D(t[3]))->set_host(hosts.at(t[2]));
      if (t[4] != "-")
        x->set_tracing_category(t[4]);
      x->start();
      maestro_acts.push_back(x);
    } else if (t[0] == "M" && t[1] == "sendto") {
      auto c = sg4::Comm::sendto_init(hosts.at(t[2]), hosts.at(t[3]))->set_payload_size((uint64_t)D(t[4]));
      if (t[5] != "-")
        c->set_tracing_category(t[5]);
      c->start();
      maestro_acts.push_back(c);
    } else {
      fprintf(stderr, "unknown declaration %s\n", t[0].c_str());
      abort();
    }
  }
  for (size_t k = 0; k < scripts.size(); k++) {
    const Script& s = scripts[k];
    if (not s.initial)
      continue;
    int t           = (int)k;
    sg4::ActorPtr a = hosts.at(s.host)->add_actor("s" + std::to_string(k), [t]() { body(t); });
    latest[t]       = a;
    if (s.daemon)
      a->daemonize();
    if (s.killtime >= 0)
      a->set_kill_time(s.killtime);
    if (s.autorestart)
      a->set_auto_restart(true);
  }
  sg4::Actor::on_termination_cb([](sg4::Actor const& a) {
    dead.insert(a.get_pid());
    for (auto it = latest.begin(); it != latest.end(); ++it)
      if (it->second.get() == &a) {
        graveyard.push_back(it->second); // released later from user context, as a program dropping its ActorPtr would do
        latest.erase(it);
        break;
      }
  });
  e.run();
  printf("END %.17g\n", now());
  latest.clear();
  graveyard.clear();
  maestro_acts.clear();
  return 0;
}
