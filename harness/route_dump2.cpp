/* route_dump2: E3 harness of C24 and C26 (copy of route_dump.cpp, which belongs to C25, plus the QF directive).
 *
 * Reads a file of platform descriptions (see lib/verif/gen/routing.py for the writer), and for each platform forks a
 * child that builds the zones through the C++ platform API (or loads an XML file), seals, and prints
 *    R <src> <dst> <latency %.17g> <n> <link>...        route_to() answer for an ordered host pair
 *    X <src> <dst> <exception text>                      route_to() threw
 *    XC <src> <dst> sig:N                                a 'QF' query died on that signal (caught, the child goes on)
 *    LR <zone> <src> <dst> <gw_src|-> <gw_dst|-> <latency> <n> <link>...   get_local_route() of one zone (private API)
 *    LX <zone> <src> <dst> <exception text>
 * The parent prints  BEGIN <id>  before and  END <id> <ok|exit:N|sig:N|spin|wall> cpu=<s>  after each child.
 * Watchdogs: the child arms a CPU-time timer (ITIMER_PROF): when it fires inside one query the child prints
 *    SPIN <what> cpu_in_query=<s>
 * and exits with status 3 (a CPU-time budget does not depend on the machine load); the parent has a wall-clock budget as a
 * last resort (reported as 'wall', which the python side treats as inconclusive).
 */
#include <simgrid/kernel/routing/NetPoint.hpp>
#include <simgrid/kernel/routing/NetZoneImpl.hpp>
#include <simgrid/s4u.hpp>

#include "src/kernel/resource/NetworkModel.hpp"
#include "src/kernel/resource/StandardLinkImpl.hpp"

#include <csetjmp>
#include <csignal>
#include <cstdio>
#include <cstring>
#include <fstream>
#include <functional>
#include <map>
#include <sstream>
#include <string>
#include <sys/resource.h>
#include <sys/time.h>
#include <sys/wait.h>
#include <unistd.h>
#include <vector>

namespace sg4 = simgrid::s4u;
using simgrid::kernel::routing::NetPoint;
using simgrid::kernel::routing::NetZoneImpl;
using simgrid::kernel::routing::Route;

extern bool do_install_signal_handlers;

static char g_query[512]    = "startup";
static double g_query_start = 0;

static double cpu_now()
{
  struct rusage ru;
  getrusage(RUSAGE_SELF, &ru);
  return ru.ru_utime.tv_sec + ru.ru_utime.tv_usec * 1e-6 + ru.ru_stime.tv_sec + ru.ru_stime.tv_usec * 1e-6;
}

static void on_prof(int)
{
  char buf[700];
  int n = snprintf(buf, sizeof buf, "\nSPIN %s cpu_in_query=%.2f\n", g_query, cpu_now() - g_query_start);
  if (write(1, buf, n) < 0) { /* nothing to do */
  }
  _exit(3);
}

static sigjmp_buf g_jmp;
static volatile sig_atomic_t g_armed = 0;

static void on_fatal(int sig)
{
  if (g_armed) {
    g_armed = 0;
    siglongjmp(g_jmp, sig);
  }
  signal(sig, SIG_DFL);
  raise(sig);
}

static void arm_fatal_handlers()
{
  static bool done = false;
  if (done)
    return;
  done = true;
  struct sigaction sa;
  memset(&sa, 0, sizeof sa);
  sa.sa_handler = on_fatal;
  sa.sa_flags   = SA_NODEFER;
  for (int sig : {SIGSEGV, SIGABRT, SIGBUS, SIGFPE})
    sigaction(sig, &sa, nullptr);
}

static void set_query(const char* kind, const std::string& a, const std::string& b, const std::string& c = "")
{
  snprintf(g_query, sizeof g_query, "%s %s %s %s", kind, a.c_str(), b.c_str(), c.c_str());
  g_query_start = cpu_now();
}

static std::vector<std::string> split(const std::string& s, char sep = ' ')
{
  std::vector<std::string> out;
  std::string cur;
  std::istringstream is(s);
  while (std::getline(is, cur, sep))
    if (not cur.empty())
      out.push_back(cur);
  return out;
}

static std::vector<unsigned int> uints(const std::string& s)
{
  std::vector<unsigned int> v;
  for (auto const& t : split(s, ','))
    v.push_back(std::stoul(t));
  return v;
}

static std::string oneline(const char* what)
{
  std::string s(what);
  for (auto& c : s)
    if (c == '\n')
      c = ' ';
  return s.substr(0, 160);
}

struct Builder {
  sg4::Engine* e;
  std::map<std::string, sg4::NetZone*> zones;
  std::map<std::string, std::string> zone_kind;
  std::vector<std::string> zone_order;

  NetPoint* np(const std::string& name)
  {
    if (name == "-")
      return nullptr;
    if (auto it = zones.find(name); it != zones.end())
      return it->second->get_netpoint();
    auto* p = e->netpoint_by_name_or_null(name);
    if (p == nullptr) {
      printf("SPECERR unknown netpoint %s\n", name.c_str());
      _exit(4);
    }
    return p;
  }

  sg4::Link::SharingPolicy policy(const std::string& p)
  {
    if (p == "F")
      return sg4::Link::SharingPolicy::FATPIPE;
    if (p == "D")
      return sg4::Link::SharingPolicy::SPLITDUPLEX;
    return sg4::Link::SharingPolicy::SHARED;
  }

  std::vector<sg4::LinkInRoute> links(const std::vector<std::string>& t, size_t from)
  {
    std::vector<sg4::LinkInRoute> out;
    for (size_t i = from; i < t.size(); i++) {
      std::string n = t[i];
      auto dir      = sg4::LinkInRoute::Direction::NONE;
      if (n.size() > 2 && n[n.size() - 2] == ':') {
        dir = n.back() == 'U' ? sg4::LinkInRoute::Direction::UP : sg4::LinkInRoute::Direction::DOWN;
        n   = n.substr(0, n.size() - 2);
      }
      const sg4::Link* l = dir == sg4::LinkInRoute::Direction::NONE
                               ? sg4::Link::by_name_or_null(n)
                               : static_cast<const sg4::Link*>(sg4::SplitDuplexLink::by_name(n));
      if (l == nullptr) {
        printf("SPECERR unknown link %s\n", n.c_str());
        _exit(4);
      }
      out.emplace_back(l, dir);
    }
    return out;
  }

  void cluster_callbacks(sg4::NetZone* z, const std::string& name, bool loopback, bool limiter, double limlat)
  {
    z->set_host_cb([name](sg4::NetZone* zone, const std::vector<unsigned long>&, unsigned long id) {
      return zone->add_host(name + "_n" + std::to_string(id), 1e9);
    });
    if (loopback)
      z->set_loopback_cb([name](sg4::NetZone* zone, const std::vector<unsigned long>&, unsigned long id) {
        return zone->add_link(name + "_loopback_" + std::to_string(id), 1e9)
            ->set_sharing_policy(sg4::Link::SharingPolicy::FATPIPE)
            ->set_latency(0.0005)
            ->seal();
      });
    if (limiter)
      z->set_limiter_cb([name, limlat](sg4::NetZone* zone, const std::vector<unsigned long>& coord, unsigned long id) {
        std::string n = name + "_limiter_" + std::to_string(id) + "_c";
        for (auto c : coord)
          n += "_" + (c == std::numeric_limits<unsigned int>::max() ? std::string("R") : std::to_string(c));
        return zone->add_link(n, 1e9)->set_latency(limlat)->seal();
      });
  }

  void directive(const std::vector<std::string>& t)
  {
    const std::string& d = t[0];
    if (d == "Z") {
      sg4::NetZone* parent = t[2] == "-" ? e->get_netzone_root() : zones.at(t[2]);
      const std::string& k = t[3];
      sg4::NetZone* z      = nullptr;
      if (k == "full")
        z = parent->add_netzone_full(t[1]);
      else if (k == "floyd")
        z = parent->add_netzone_floyd(t[1]);
      else if (k == "dijkstra")
        z = parent->add_netzone_dijkstra(t[1], false);
      else if (k == "dijkstracache")
        z = parent->add_netzone_dijkstra(t[1], true);
      else if (k == "star")
        z = parent->add_netzone_star(t[1]);
      else if (k == "vivaldi")
        z = parent->add_netzone_vivaldi(t[1]);
      else if (k == "wifi")
        z = parent->add_netzone_wifi(t[1]);
      else if (k == "empty")
        z = parent->add_netzone_empty(t[1]);
      else if (k == "torus") { // Z name parent torus lat policy dims loopback limiter limlat
        std::vector<unsigned long> dims;
        for (auto v : uints(t[6]))
          dims.push_back(v);
        z = parent->add_netzone_torus(t[1], dims, 1e9, std::stod(t[4]), policy(t[5]));
        cluster_callbacks(z, t[1], t[7] == "1", t[8] == "1", std::stod(t[9]));
      } else if (k == "fattree") { // Z name parent fattree lat policy levels down up count loopback limiter limlat
        z = parent->add_netzone_fatTree(t[1], std::stoul(t[6]), uints(t[7]), uints(t[8]), uints(t[9]), 1e9,
                                        std::stod(t[4]), policy(t[5]));
        cluster_callbacks(z, t[1], t[10] == "1", t[11] == "1", std::stod(t[12]));
      } else if (k == "dragonfly") { // Z name parent dragonfly lat policy g,gl c,cl r,rl nodes loopback limiter limlat
        auto g = uints(t[6]);
        auto c = uints(t[7]);
        auto r = uints(t[8]);
        z = parent->add_netzone_dragonfly(t[1], {g[0], g[1]}, {c[0], c[1]}, {r[0], r[1]}, std::stoul(t[9]), 1e9,
                                          std::stod(t[4]), policy(t[5]));
        cluster_callbacks(z, t[1], t[10] == "1", t[11] == "1", std::stod(t[12]));
      } else {
        printf("SPECERR unknown zone kind %s\n", k.c_str());
        _exit(4);
      }
      zones[t[1]]     = z;
      zone_kind[t[1]] = k;
      zone_order.push_back(t[1]);
    } else if (d == "H") {
      auto* h = zones.at(t[2])->add_host(t[1], 1e9);
      if (t.size() >= 6)
        h->get_netpoint()->set_coordinates(t[3] + " " + t[4] + " " + t[5]);
    } else if (d == "R") {
      auto* r = zones.at(t[2])->add_router(t[1]);
      if (t.size() >= 6)
        r->set_coordinates(t[3] + " " + t[4] + " " + t[5]);
    } else if (d == "C") { // coordinates of a zone's netpoint (child of a vivaldi zone)
      np(t[1])->set_coordinates(t[2] + " " + t[3] + " " + t[4]);
    } else if (d == "L") {
      if (t[4] == "D")
        zones.at(t[2])->add_split_duplex_link(t[1], 1e8)->set_latency(std::stod(t[3]));
      else
        zones.at(t[2])->add_link(t[1], 1e8)->set_latency(std::stod(t[3]))->set_sharing_policy(policy(t[4]));
    } else if (d == "W") { // W zone linkname latency access_point|-
      auto* z = zones.at(t[1]);
      z->add_link(t[2], std::vector<double>{1e7, 2e7})->set_latency(std::stod(t[3]));
      if (t[4] != "-")
        z->set_property("access_point", t[4]);
    } else if (d == "A") { // A zone src dst sym links...
      zones.at(t[1])->add_route(np(t[2]), np(t[3]), links(t, 5), t[4] == "1");
    } else if (d == "AZ") { // AZ zone srczone dstzone gwsrc gwdst sym links...   (explicit gateways)
      zones.at(t[1])->get_impl()->add_route(np(t[2]), np(t[3]), np(t[4]), np(t[5]), links(t, 7), t[6] == "1");
    } else if (d == "AN") { // AN zone srczone dstzone sym links...               (NetZone* overload, default gateways)
      zones.at(t[1])->add_route(zones.at(t[2]), zones.at(t[3]), links(t, 5), t[4] == "1");
    } else if (d == "AS") { // AS zone src|- dst|- gw|- sym links...             (star zones)
      NetPoint* s = np(t[2]);
      NetPoint* o = np(t[3]);
      NetPoint* g = np(t[4]);
      if (s && o) // loopback
        zones.at(t[1])->get_impl()->add_route(s, o, nullptr, nullptr, links(t, 6), false);
      else if (s)
        zones.at(t[1])->get_impl()->add_route(s, nullptr, g, nullptr, links(t, 6), t[5] == "1");
      else
        zones.at(t[1])->get_impl()->add_route(nullptr, o, nullptr, g, links(t, 6), false);
    } else if (d == "B") { // B zone src dst gwsrc|- gwdst|- links...
      zones.at(t[1])->add_bypass_route(np(t[2]), np(t[3]), np(t[4]), np(t[5]), links(t, 6));
    } else if (d == "G") {
      zones.at(t[1])->set_gateway(np(t[2]));
    } else if (d == "S") {
      zones.at(t[1])->seal();
    } else if (d == "XML") {
      e->load_platform(t[1]);
    } else {
      printf("SPECERR unknown directive %s\n", d.c_str());
      _exit(4);
    }
  }
};

static void query_route(sg4::Host* a, sg4::Host* b)
{
  set_query("R", a->get_name(), b->get_name());
  std::vector<sg4::Link*> links;
  double lat = 0;
  try {
    a->route_to(b, links, &lat);
    printf("R %s %s %.17g %zu", a->get_cname(), b->get_cname(), lat, links.size());
    for (auto* l : links)
      printf(" %s", l->get_cname());
    printf("\n");
  } catch (const std::exception& ex) {
    printf("X %s %s %s\n", a->get_cname(), b->get_cname(), oneline(ex.what()).c_str());
  }
}

static void query_local(NetZoneImpl* z, NetPoint* a, NetPoint* b)
{
  set_query("LR", z->get_name(), a->get_name(), b->get_name());
  Route route;
  double lat = 0;
  try {
    z->get_local_route(a, b, &route, &lat);
    printf("LR %s %s %s %s %s %.17g %zu", z->get_cname(), a->get_cname(), b->get_cname(),
           route.gw_src_ ? route.gw_src_->get_cname() : "-", route.gw_dst_ ? route.gw_dst_->get_cname() : "-", lat,
           route.link_list_.size());
    for (auto* l : route.link_list_)
      printf(" %s", l->get_cname());
    printf("\n");
  } catch (const std::exception& ex) {
    printf("LX %s %s %s %s\n", z->get_cname(), a->get_cname(), b->get_cname(), oneline(ex.what()).c_str());
  }
}

static int child(const std::vector<std::string>& lines, double cpu_budget, int argc, char** argv)
{
  struct sigaction sa;
  memset(&sa, 0, sizeof sa);
  sa.sa_handler = on_prof;
  sigaction(SIGPROF, &sa, nullptr);
  struct itimerval it;
  memset(&it, 0, sizeof it);
  it.it_value.tv_sec  = static_cast<long>(cpu_budget);
  it.it_value.tv_usec = static_cast<long>((cpu_budget - static_cast<long>(cpu_budget)) * 1e6);
  setitimer(ITIMER_PROF, &it, nullptr);

  dup2(1, 2); // sanitizer reports and SimGrid's own messages stay next to the platform they belong to
  do_install_signal_handlers = false;
  sg4::Engine e(&argc, argv);
  Builder b;
  b.e         = &e;
  bool sealed = false;
  for (auto const& l : lines) {
    auto t = split(l);
    if (t.empty())
      continue;
    bool is_query = t[0] == "Q" || t[0] == "QF" || t[0] == "Q2" || t[0] == "LQ" || t[0] == "LQA" || t[0] == "LINKS";
    if (is_query && not sealed) { // the API contract: routes are asked on a sealed platform (Engine::run() does this)
      set_query("SEAL", "platform", "", "");
      try {
        e.seal_platform();
      } catch (const std::exception& ex) {
        printf("BX %s ## seal_platform\n", oneline(ex.what()).c_str());
      }
      sealed = true;
    }
    if (t[0] == "Q") { // all ordered host pairs (or Q src dst)
      if (t.size() == 3) {
        query_route(sg4::Host::by_name(t[1]), sg4::Host::by_name(t[2]));
      } else {
        auto hosts = e.get_all_hosts();
        printf("HOSTS %zu\n", hosts.size());
        for (auto* x : hosts)
          for (auto* y : hosts)
            query_route(x, y);
      }
    } else if (t[0] == "QF") { // QF src dst: a query that may die (known deviations): SIGSEGV/SIGABRT/SIGBUS/SIGFPE are caught
                               // and reported as XC, then the child goes on (a fork per query costs 0.2 s; the queries that
                               // are judged strictly are all asked before the first QF)
      arm_fatal_handlers();
      g_armed = 1;
      int sig = sigsetjmp(g_jmp, 1);
      if (sig == 0)
        query_route(sg4::Host::by_name(t[1]), sg4::Host::by_name(t[2]));
      else
        printf("\nXC %s %s sig:%d\n", t[1].c_str(), t[2].c_str(), sig);
      g_armed = 0;
    } else if (t[0] == "Q2") { // the same pair twice in a row and in both directions (cache hit vs miss)
      auto* x = sg4::Host::by_name(t[1]);
      auto* y = sg4::Host::by_name(t[2]);
      query_route(x, y);
      query_route(x, y);
    } else if (t[0] == "LQ") { // LQ zone src dst
      query_local(b.zones.at(t[1])->get_impl(), b.np(t[2]), b.np(t[3]));
    } else if (t[0] == "LQA") { // LQA zone: every ordered pair of vertices of that zone
      auto* z = b.zones.at(t[1])->get_impl();
      for (auto* x : z->get_vertices())
        for (auto* y : z->get_vertices())
          query_local(z, x, y);
    } else if (t[0] == "LINKS") { // latency of every link (ground truth for the latency sum)
      for (auto* l : e.get_all_links())
        printf("LK %s %.17g\n", l->get_cname(), l->get_latency());
      printf("LK __loopback__ %.17g\n", e.get_netzone_root()->get_network_model()->loopback_->get_latency());
    } else {
      set_query("BUILD", l.substr(0, 100), "", "");
      try {
        b.directive(t);
      } catch (const std::exception& ex) {
        printf("BX %s ## %s\n", oneline(ex.what()).c_str(), l.substr(0, 120).c_str());
      }
    }
  }
  printf("DONE\n");
  fflush(stdout);
  _exit(0); // no engine teardown: irrelevant to the properties and slow under ASan
}

int main(int argc, char** argv)
{
  setvbuf(stdout, nullptr, _IOLBF, 0);
  if (argc < 4) {
    fprintf(stderr, "usage: route_dump <spec file> <cpu budget s> <wall budget s> [simgrid args]\n");
    return 2;
  }
  std::ifstream in(argv[1]);
  double cpu_budget  = std::stod(argv[2]);
  double wall_budget = std::stod(argv[3]);
  std::vector<char*> sgargv{argv[0]};
  for (int i = 4; i < argc; i++)
    sgargv.push_back(argv[i]);
  sgargv.push_back(nullptr);

  std::string line, id;
  std::vector<std::string> lines;
  while (std::getline(in, line)) {
    if (line.rfind("P ", 0) == 0) {
      id = line.substr(2);
      lines.clear();
    } else if (line == "E") {
      printf("BEGIN %s\n", id.c_str());
      fflush(stdout);
      pid_t pid = fork();
      if (pid == 0) {
        int sgargc = sgargv.size() - 1;
        child(lines, cpu_budget, sgargc, sgargv.data());
        _exit(0);
      }
      // wall-clock watchdog of last resort
      int status       = 0;
      struct rusage ru = {};
      double waited    = 0;
      bool walled      = false;
      while (true) {
        pid_t r = wait4(pid, &status, WNOHANG, &ru);
        if (r == pid)
          break;
        usleep(2000);
        waited += 0.002;
        if (waited > wall_budget && not walled) {
          kill(pid, SIGKILL);
          walled = true;
        }
      }
      double cpu = ru.ru_utime.tv_sec + ru.ru_utime.tv_usec * 1e-6 + ru.ru_stime.tv_sec + ru.ru_stime.tv_usec * 1e-6;
      std::string st;
      if (walled)
        st = "wall";
      else if (WIFSIGNALED(status))
        st = "sig:" + std::to_string(WTERMSIG(status));
      else if (WEXITSTATUS(status) == 0)
        st = "ok";
      else if (WEXITSTATUS(status) == 3)
        st = "spin";
      else
        st = "exit:" + std::to_string(WEXITSTATUS(status));
      printf("\nEND %s %s cpu=%.2f\n", id.c_str(), st.c_str(), cpu);
      fflush(stdout);
    } else {
      lines.push_back(line);
    }
  }
  return 0;
}
