// C44 harness: builds UDPOR unfoldings out of executions of real transitions, the way UDPOR does (one event per
// (transition, causal history); equivalent events of different executions are merged by the real Unfolding::insert), then
// asks the real EventSet / History / Configuration / UnfoldingEvent / Unfolding / maximal_subsets_iterator and the xbt
// subset enumerators everything, and prints the answers. All judging is done in Python from the printed primitive
// structure (immediate causes + the checker's own dependency answers).
//
// Commands (one per line):
//   U <id>                 new case
//   T <transition>         append a program transition (index = order of definition; grammar in unf_trans.hpp)
//   Y <0|1|2> [salt]       style of immediate causes: 0 = maximal dependent predecessors (what ExtensionSetCalculator builds with
//                          get_largest_maximal_subset), 1 = all dependent predecessors, 2 = the maximal ones + the previous event
//                          of the same actor + a pseudo-random (function of transition, predecessor and salt) choice of other
//                          dependent predecessors: the shape of the ActorJoin {pre_event, last_event_waited} and MutexTest
//                          {unlock event, pre_event} extensions, whose two causes may be ordered
//   W <n>                  stop unfolding an execution at the first transition that would create event number n+1 (n <= 30)
//   H <mask>               Unfolding::mark_finished() on these events (U -> G), as UDPOR's clean-up does; then prints Z
//   E k1 k2 ...            unfold the execution made of these program transitions
//   G <exh_n> <nsample> <seed> <cap> <nalt>   dump: structure, relations, subsets (all 2^n if n <= exh_n, else nsample random ones
//                          plus local configurations and their pairwise unions), configurations, iterators (at most cap sets
//                          each), and for nalt configurations C alternatives to sets D of extensions of C (see J)
//   J <k> <Cmask> <Dmask>  C.compute_alternative_to(D, U) (k < 0) or C.compute_k_partial_alternative_to(D, U, k) on the current
//                          unfolding (hex masks over event indices)
//   L P <m> | L K <k> <m> | L F <s1> <s2> ...     xbt enumerators on vectors 0..m-1 (powerset, k-subsets, nested for loop)
#include "unf_trans.hpp"
#include "src/mc/explo/udpor/Configuration.hpp"
#include "src/mc/explo/udpor/EventSet.hpp"
#include "src/mc/explo/udpor/History.hpp"
#include "src/mc/explo/udpor/Unfolding.hpp"
#include "src/mc/explo/udpor/UnfoldingEvent.hpp"
#include "src/mc/explo/udpor/maximal_subsets_iterator.hpp"
#include "src/xbt/utils/iter/LazyKSubsets.hpp"
#include "src/xbt/utils/iter/LazyPowerset.hpp"
#include "src/xbt/utils/iter/variable_for_loop.hpp"
#include <iostream>
#include <map>
#include <memory>
#include <random>
#include <set>

using namespace simgrid::mc;
using namespace simgrid::mc::udpor;
using Mask = unsigned;

struct Case {
  std::string id = "-";
  std::vector<TransitionPtr> prog;
  std::unique_ptr<Unfolding> unf = std::make_unique<Unfolding>();
  std::vector<const UnfoldingEvent*> ev;
  std::map<const UnfoldingEvent*, int> idx;
  std::vector<Mask> causes, hist; // generator-side bookkeeping (hist = strict causal history)
  std::vector<int> prog_of;
  int style = 0;
  unsigned salt = 0;
  unsigned maxev = 30;
  std::vector<std::vector<int>> execs;
};

static Case* cs;

static EventSet set_of(Mask m)
{
  EventSet s;
  for (size_t i = 0; i < cs->ev.size(); i++)
    if (m >> i & 1)
      s.insert(cs->ev[i]);
  return s;
}
static Mask mask_of(const EventSet& s)
{
  Mask m = 0;
  for (const auto* e : s) {
    auto it = cs->idx.find(e);
    if (it == cs->idx.end())
      m |= 1u << 31; // an event that does not belong to the unfolding
    else
      m |= 1u << it->second;
  }
  return m;
}

static void unfold(const std::vector<int>& exec)
{
  std::vector<int> seen; // event indices of this execution, in order
  for (int k : exec) {
    const Transition* t = cs->prog.at(k).get();
    Mask dep            = 0;
    for (int e : seen)
      if (cs->ev[e]->get_transition()->dispatch_depends(t))
        dep |= 1u << e;
    Mask c = dep;
    if (cs->style != 1) {
      for (int e : seen)
        if (dep >> e & 1)
          c &= ~cs->hist[e]; // keep the maximal ones only
      if (cs->style == 2) {
        int own = -1;
        for (int e : seen) {
          if (not(dep >> e & 1))
            continue;
          if (cs->ev[e]->get_actor() == t->aid_)
            own = e; // the last one wins: the previous event of the same actor
          else if (((unsigned)(k * 2654435761u) ^ (unsigned)(e * 40503u) ^ cs->salt) % 3 == 0)
            c |= 1u << e;
        }
        if (own >= 0)
          c |= 1u << own;
      }
    }
    if (cs->ev.size() >= cs->maxev) { // would this be a new event? ask without inserting
      const UnfoldingEvent probe(set_of(c), cs->prog[k]);
      bool known = false;
      for (const auto* e : cs->ev)
        if (*e == probe)
          known = true;
      if (not known)
        return;
    }
    // Style 2 inserts the youngest cause first, as EventSet({pre_event_a_C, last_event_waited}) does when the joiner's previous
    // event is causally after the exit of the joined actor (an unordered_set iterates in reverse insertion order)
    EventSet cset;
    if (cs->style == 2) {
      for (int i = (int)cs->ev.size() - 1; i >= 0; i--)
        if (c >> i & 1)
          cset.insert(cs->ev[i]);
    } else
      cset = set_of(c);
    const UnfoldingEvent* h = cs->unf->discover_event(std::move(cset), cs->prog[k]);
    auto it                 = cs->idx.find(h);
    int i;
    if (it == cs->idx.end()) {
      i          = cs->ev.size();
      cs->idx[h] = i;
      cs->ev.push_back(h);
      cs->causes.push_back(c);
      Mask hm = 0;
      for (size_t j = 0; j < cs->hist.size(); j++)
        if (c >> j & 1)
          hm |= cs->hist[j] | (1u << j);
      cs->hist.push_back(hm);
      cs->prog_of.push_back(k);
    } else
      i = it->second;
    seen.push_back(i);
  }
}

static void print_order(const std::vector<const UnfoldingEvent*>& v)
{
  if (v.empty())
    printf("-");
  for (size_t i = 0; i < v.size(); i++)
    printf(i ? ",%d" : "%d", cs->idx.count(v[i]) ? cs->idx[v[i]] : 99);
}

static void dump_msi(Mask cm, const Configuration& C, Mask filter, int maxsize, long cap)
{
  std::optional<maximal_subsets_iterator::node_filter_function> f = std::nullopt;
  if (filter != ~0u)
    f = [filter](const UnfoldingEvent* e) { return (filter >> cs->idx[e] & 1) != 0; };
  std::optional<size_t> ms = maxsize < 0 ? std::nullopt : std::optional<size_t>(maxsize);
  printf("M %x %x %d ", cm, filter, maxsize);
  long cnt = 0;
  bool trunc = false;
  std::string out;
  for (auto it = maximal_subsets_iterator(C, f, ms); it != maximal_subsets_iterator(); ++it) {
    if (cnt >= cap) {
      trunc = true;
      break;
    }
    char buf[16];
    snprintf(buf, sizeof buf, cnt ? ",%x" : "%x", mask_of(*it));
    out += buf;
    cnt++;
  }
  printf("%d %s\n", trunc, out.empty() ? "-" : out.c_str());
}

// J <k> <Cmask> <Dmask>: k < 0 -> compute_alternative_to (the flag model-check/k-alternatives keeps its default, -1 = full
// alternatives, as in the checker), else compute_k_partial_alternative_to(D, U, k)
static void run_alt(long k, Mask cm, Mask dm)
{
  try {
    Configuration C(set_of(cm));
    EventSet D = set_of(dm);
    auto alt   = k < 0 ? C.compute_alternative_to(D, *cs->unf) : C.compute_k_partial_alternative_to(D, *cs->unf, (size_t)k);
    if (alt.has_value())
      printf("J %ld %x %x %x\n", k, cm, dm, mask_of(alt->get_events()));
    else
      printf("J %ld %x %x none\n", k, cm, dm);
  } catch (const std::invalid_argument& e) {
    printf("J %ld %x %x threw %s\n", k, cm, dm, e.what());
  }
}

static void dump(unsigned exh_n, unsigned nsample, unsigned seed, long cap, unsigned nalt)
{
  const unsigned n = cs->ev.size();
  printf("N %s %u %zu %d\n", cs->id.c_str(), n, cs->prog.size(), cs->style);
  printf("Z %zu\n", cs->unf->size());
  for (unsigned i = 0; i < n; i++)
    printf("V %u %d %d %x %x\n", i, cs->ev[i]->get_actor().c_val(), cs->prog_of[i], cs->causes[i], mask_of(cs->ev[i]->get_immediate_causes()));
  for (unsigned i = 0; i < n; i++) {
    Mask dep = 0, inh = 0, rel = 0, conf = 0, iconf = 0;
    for (unsigned j = 0; j < n; j++) {
      if (cs->ev[i]->is_dependent_with(cs->ev[j]))
        dep |= 1u << j;
      if (cs->ev[i]->in_history_of(cs->ev[j]))
        inh |= 1u << j;
      if (cs->ev[i]->related_to(cs->ev[j]))
        rel |= 1u << j;
      if (cs->ev[i]->conflicts_with(cs->ev[j]))
        conf |= 1u << j;
      if (cs->ev[i]->immediately_conflicts_with(cs->ev[j]))
        iconf |= 1u << j;
    }
    printf("R %u %x %x %x %x %x %x %x %x\n", i, dep, mask_of(cs->ev[i]->get_history()), mask_of(cs->ev[i]->get_local_config()), inh, rel, conf, iconf,
           mask_of(cs->unf->get_immediate_conflicts_of(cs->ev[i])));
  }
  // subsets
  std::vector<Mask> subsets;
  std::mt19937 rng(seed);
  const Mask full = n >= 32 ? ~0u : ((1u << n) - 1);
  if (n <= exh_n) {
    for (Mask m = 0; m <= full; m++) {
      subsets.push_back(m);
      if (m == full)
        break;
    }
    printf("X 1\n");
  } else {
    std::set<Mask> s{0u, full};
    for (unsigned i = 0; i < n; i++) {
      s.insert(cs->hist[i] | (1u << i));
      s.insert(cs->hist[i]);
      for (unsigned j = 0; j < i; j++)
        s.insert(cs->hist[i] | (1u << i) | cs->hist[j] | (1u << j));
    }
    for (unsigned k = 0; k < nsample; k++) {
      Mask m = rng() & full;
      if (k % 3 == 0)
        m &= rng(); // sparser
      if (k % 5 == 0) { // causally closed
        Mask c = m;
        for (unsigned i = 0; i < n; i++)
          if (m >> i & 1)
            c |= cs->hist[i];
        m = c;
      }
      s.insert(m);
    }
    subsets.assign(s.begin(), s.end());
    printf("X 0\n");
  }
  std::vector<Mask> configs;
  for (Mask m : subsets) {
    EventSet s = set_of(m);
    const History h(s);
    printf("S %x %d %d %d %x %x %x %x ", m, s.is_valid_configuration(), s.is_conflict_free(), s.is_maximal(), mask_of(s.get_largest_maximal_subset()),
           mask_of(h.get_all_events()), mask_of(h.get_all_maximal_events()), mask_of(s.get_local_config()));
    bool ok = true;
    try {
      Configuration C(s);
      if (mask_of(C.get_events()) != m)
        ok = false;
    } catch (const std::invalid_argument&) {
      ok = false;
    }
    printf("%d ", ok);
    try {
      print_order(s.get_topological_ordering());
    } catch (const std::invalid_argument&) {
      printf("x");
    }
    printf("\n");
    if (ok)
      configs.push_back(m);
  }
  // configurations
  long budget = cap * 40;
  for (Mask cm : configs) {
    Configuration C(set_of(cm));
    Mask compat = 0, hcompat = 0, addok = 0;
    for (unsigned i = 0; i < n; i++) {
      if (C.is_compatible_with(cs->ev[i]))
        compat |= 1u << i;
      if (C.is_compatible_with(History(cs->ev[i])))
        hcompat |= 1u << i;
      Configuration C2 = C;
      try {
        C2.add_event(cs->ev[i]);
        if (mask_of(C2.get_events()) == (cm | 1u << i))
          addok |= 1u << i;
      } catch (const std::invalid_argument&) {
      }
    }
    // rebuild the configuration event by event in causal order: add_event must accept each step
    int grown = 1;
    try {
      Configuration C3;
      for (const auto* e : C.get_topologically_sorted_events())
        C3.add_event(e);
      grown = mask_of(C3.get_events()) == cm;
    } catch (const std::invalid_argument&) {
      grown = 0;
    }
    printf("K %x %x %x %x %x %d ", cm, compat, hcompat, addok, mask_of(C.get_minimally_reproducible_events()), grown);
    bool first = true;
    for (unsigned a = 0; a < 31; a++) {
      auto le = C.get_latest_event_of(Aid(a));
      if (le.has_value()) {
        printf(first ? "%u:%d" : ",%u:%d", a, cs->idx[le.value()]);
        first = false;
      }
    }
    if (first)
      printf("-");
    printf(" ");
    print_order(C.get_topologically_sorted_events_of_reverse_graph());
    // History::get_event_diff_with on two subsets
    Mask s1 = subsets[rng() % subsets.size()], s2 = full & ~cm;
    printf(" %x %x %x %x\n", s1, mask_of(History(set_of(s1)).get_event_diff_with(C)), s2, mask_of(History(set_of(s2)).get_event_diff_with(C)));
    // The iterator walks get_topological_ordering_of_reverse_graph(): when that lists an event twice (reported by the K line above)
    // the iterator is not asked, its answers (or its xbt_asserts) would only repeat that defect
    bool dup_order = false;
    {
      auto ro = C.get_topologically_sorted_events_of_reverse_graph();
      std::set<const UnfoldingEvent*> uniq(ro.begin(), ro.end());
      dup_order = uniq.size() != ro.size();
    }
    if (budget > 0 && not dup_order) {
      dump_msi(cm, C, ~0u, -1, cap);
      Mask filter = rng() & full;
      dump_msi(cm, C, filter, -1, cap);
      dump_msi(cm, C, ~0u, 1 + rng() % 3, cap);
      dump_msi(cm, C, rng() & full, 1 + rng() % 3, cap); // a limit of 0 is refused by an xbt_assert of the iterator: not asked
      budget -= 4;
    }
  }
  // alternatives: C a configuration, D a set of events outside C whose history is inside C (what UDPOR's D is made of)
  {
    std::vector<Mask> cands = configs;
    std::shuffle(cands.begin(), cands.end(), rng);
    unsigned done = 0;
    for (Mask cm : cands) {
      if (done >= nalt)
        break;
      Mask ext = 0;
      for (unsigned i = 0; i < n; i++)
        if (not(cm >> i & 1) && (cs->hist[i] & ~cm) == 0)
          ext |= 1u << i;
      if (ext == 0)
        continue;
      done++;
      for (int rep = 0; rep < 3; rep++) {
        Mask dm = 0;
        const unsigned want = 1 + rng() % 3;
        for (unsigned tries = 0; tries < 20 && (unsigned)__builtin_popcount(dm) < want; tries++) {
          unsigned i = rng() % n;
          if (ext >> i & 1)
            dm |= 1u << i;
        }
        if (dm == 0)
          continue;
        run_alt(-1, cm, dm);
        run_alt(1 + rng() % 2, cm, dm);
      }
    }
  }
  // EventSet algebra on pairs of subsets
  for (unsigned k = 0; k < 40 && !subsets.empty(); k++) {
    Mask a = subsets[rng() % subsets.size()], b = subsets[rng() % subsets.size()];
    if (k % 4 == 0)
      b = a & rng();
    EventSet A = set_of(a), B = set_of(b);
    EventSet U1 = A;
    U1.form_union(B);
    EventSet D1 = A;
    D1.subtract(B);
    printf("A %x %x %x %x %x %x %x %d %d %d %d %zu %d\n", a, b, mask_of(A.make_union(B)), mask_of(U1), mask_of(A.make_intersection(B)), mask_of(A.subtracting(B)),
           mask_of(D1), A.is_subset_of(B), A == B, A != B, A.intersects(B), A.size(), A.empty());
  }
  // the xbt enumerators over the EventSet itself
  {
    EventSet all = set_of(full);
    if (n <= 12) {
      printf("P %u ", n);
      bool first = true;
      for (const auto& sub : simgrid::xbt::make_powerset_iter<EventSet>(all)) {
        Mask m = 0;
        for (const auto& it : sub)
          m += 1u << cs->idx[*it]; // += : an element listed twice shows up as a carry
        printf(first ? "%x" : ",%x", m);
        first = false;
      }
      printf("%s\n", first ? "-" : "");
    }
    unsigned k = rng() % (n + 2);
    printf("Q %u %u ", n, k);
    bool first = true;
    long cnt   = 0;
    for (const auto& sub : simgrid::xbt::make_k_subsets_iter<EventSet>(k, all)) {
      if (++cnt > 40000)
        break;
      Mask m = 0;
      for (const auto& it : sub)
        m += 1u << cs->idx[*it];
      printf(first ? "%x" : ",%x", m);
      first = false;
    }
    printf("%s\n", first ? "-" : "");
  }
  printf("F %s\n", cs->id.c_str());
}

int main()
{
  setvbuf(stdout, nullptr, _IOLBF, 0);
  cs = new Case;
  std::string line;
  long ncmd = 0;
  while (std::getline(std::cin, line)) {
    if (line.empty())
      continue;
    ncmd++;
    std::istringstream is(line);
    std::string c;
    is >> c;
    if (c == "U") {
      delete cs;
      cs = new Case;
      is >> cs->id;
    } else if (c == "T") {
      cs->prog.emplace_back(vt::parse(is));
    } else if (c == "Y") {
      cs->style = vt::rd(is);
      if (not(is >> cs->salt))
        cs->salt = 0;
    } else if (c == "E") {
      std::vector<int> ex;
      int k;
      while (is >> k)
        ex.push_back(k);
      unfold(ex);
    } else if (c == "G") {
      unsigned exh = vt::rd(is), ns = vt::rd(is), seed = vt::rd(is);
      long cap     = vt::rd(is);
      unsigned nalt = vt::rd(is);
      dump(exh, ns, seed, cap, nalt);
    } else if (c == "J") {
      long k = vt::rd(is);
      Mask cm, dm;
      is >> std::hex >> cm >> dm;
      run_alt(k, cm, dm);
    } else if (c == "W") {
      cs->maxev = std::min(30l, vt::rd(is));
    } else if (c == "H") {
      Mask m;
      is >> std::hex >> m;
      cs->unf->mark_finished(set_of(m));
      printf("Z %zu\n", cs->unf->size());
    } else if (c == "L") {
      std::string o;
      is >> o;
      if (o == "P") {
        unsigned m = vt::rd(is);
        std::vector<int> v(m);
        for (unsigned i = 0; i < m; i++)
          v[i] = i;
        printf("LP %u ", m);
        bool first = true;
        for (const auto& sub : simgrid::xbt::make_powerset_iter(v)) {
          unsigned long x = 0;
          for (const auto& it : sub)
            x += 1ul << *it;
          printf(first ? "%lx" : ",%lx", x);
          first = false;
        }
        printf("%s\n", first ? "-" : "");
      } else if (o == "K") {
        unsigned k = vt::rd(is), m = vt::rd(is);
        std::vector<int> v(m);
        for (unsigned i = 0; i < m; i++)
          v[i] = i;
        printf("LK %u %u ", k, m);
        bool first = true;
        for (const auto& sub : simgrid::xbt::make_k_subsets_iter(k, v)) {
          unsigned long x = 0;
          for (const auto& it : sub)
            x += 1ul << *it;
          printf(first ? "%lx:%zu" : ",%lx:%zu", x, sub.size());
          first = false;
        }
        printf("%s\n", first ? "-" : "");
      } else if (o == "F") {
        std::vector<std::vector<int>> cols;
        int s;
        while (is >> s) {
          std::vector<int> v(s);
          for (int i = 0; i < s; i++)
            v[i] = i;
          cols.push_back(v);
        }
        std::vector<std::reference_wrapper<std::vector<int>>> refs(cols.begin(), cols.end());
        printf("LF %zu ", cols.size());
        bool first = true;
        simgrid::xbt::variable_for_loop<std::vector<int>> it(refs), end;
        for (; it != end; ++it) {
          printf(first ? "" : ",");
          first = false;
          bool f2 = true;
          for (const auto& x : *it) {
            printf(f2 ? "%d" : ".%d", *x);
            f2 = false;
          }
        }
        printf("%s\n", first ? "-" : "");
      }
    } else {
      fprintf(stderr, "HARNESS: unknown command '%s'\n", c.c_str());
      return 3;
    }
  }
  printf("DONE %ld\n", ncmd);
  return 0;
}
