// C42 harness: drives the real odpor::Execution (clock vectors, happens_before, get_racing_events_of) and the real
// ClockVector/Clock with scripts read on stdin; prints what the real code answers. All judging is done in Python.
//
// Script (one command per line):
//   X <id>            start a new, empty Execution
//   P <transition>    Execution::push_transition (transition grammar: see mctrans.hpp)
//   R                 Execution::remove_last_event
//   K                 replace the execution by a copy of itself (copy constructor)
//   W                 replace the execution by Execution(PartialExecution) built from its own transitions
//   F <h>             replace the execution by get_prefix_before(h)
//   Q                 dump: "Q <id> <n>" then for each event "E <idx> <aid> <dep-row hex> <hb-row hex> <race,list|->"
//                       dep-row bit j = transition(idx)->dispatch_depends(transition(j))
//                       hb-row  bit j = happens_before(idx, j)       (all j, including j <= idx)
//   V N <r> | V I <r> <clock> | V S <r> <aid> <clock> | V G <r> <aid> | V M <r> <a> <b> | V L <a> <b> | V D <r>
//                     ClockVector registers: new / new with initial value / operator[]= / get / r=max(a,b) /
//                     max_emplace_left(a,b) / dump of aids 0..30.  Answers: "G <value|-1>" and "D v0 v1 ... v30"
//   V O <a> <b>       Clock ordering: prints "O <lt> <eq> <gt>" for Clock(a) vs Clock(b) (-1 = Clock::INVALID)
// End of input: prints "DONE <commands>".
#include "mctrans.hpp"
#include "src/mc/api/ClockVector.hpp"
#include "src/mc/explo/odpor/Execution.hpp"
#include <iostream>
#include <map>
#include <memory>

using namespace simgrid::mc;

static Clock mkclock(long v)
{
  return v < 0 ? Clock() : Clock((unsigned)v);
}
static long clockval(const Clock& c)
{
  return c.has_value() ? (long)c.value() : -1;
}

int main()
{
  setvbuf(stdout, nullptr, _IOLBF, 0);
  std::unique_ptr<odpor::Execution> ex = std::make_unique<odpor::Execution>();
  std::map<int, ClockVector> reg;
  std::string line, id = "-";
  long ncmd = 0;
  while (std::getline(std::cin, line)) {
    if (line.empty())
      continue;
    ncmd++;
    std::istringstream is(line);
    std::string c;
    is >> c;
    if (c == "X") {
      is >> id;
      ex = std::make_unique<odpor::Execution>();
    } else if (c == "P") {
      ex->push_transition(TransitionPtr(vt::parse(is)));
    } else if (c == "R") {
      ex->remove_last_event();
    } else if (c == "K") {
      ex = std::make_unique<odpor::Execution>(*ex);
    } else if (c == "W") {
      odpor::PartialExecution w;
      for (auto const& ev : *ex)
        w.push_back(TransitionPtr(ev.get_transition()));
      ex = std::make_unique<odpor::Execution>(w);
    } else if (c == "F") {
      unsigned h = vt::rd(is);
      ex         = std::make_unique<odpor::Execution>(ex->get_prefix_before(h));
    } else if (c == "Q") {
      unsigned n = ex->size();
      printf("Q %s %u\n", id.c_str(), n);
      for (unsigned i = 0; i < n; i++) {
        unsigned long long dep = 0, hb = 0;
        const Transition* ti = ex->get_transition_for_handle(i);
        for (unsigned j = 0; j < n; j++) {
          if (ti->dispatch_depends(ex->get_transition_for_handle(j)))
            dep |= 1ULL << j;
          if (ex->happens_before(i, j))
            hb |= 1ULL << j;
        }
        printf("E %u %d %llx %llx ", i, ex->get_actor_with_handle(i).c_val(), dep, hb);
        auto races = ex->get_racing_events_of(i);
        if (races.empty())
          printf("-");
        bool first = true;
        for (auto r : races) {
          printf(first ? "%u" : ",%u", r);
          first = false;
        }
        printf("\n");
      }
    } else if (c == "V") {
      std::string o;
      is >> o;
      if (o == "N") {
        reg[vt::rd(is)] = ClockVector();
      } else if (o == "I") {
        int r  = vt::rd(is);
        reg[r] = ClockVector(mkclock(vt::rd(is)));
      } else if (o == "S") {
        int r        = vt::rd(is);
        unsigned aid = vt::rd(is);
        reg.at(r)[Aid(aid)] = mkclock(vt::rd(is));
      } else if (o == "G") {
        int r    = vt::rd(is);
        long aid = vt::rd(is);
        printf("G %ld\n", clockval(reg.at(r).get(aid < 0 ? Aid::INVALID : Aid((unsigned)aid))));
      } else if (o == "M") {
        int r = vt::rd(is), a = vt::rd(is), b = vt::rd(is);
        ClockVector m = ClockVector::max(reg.at(a), reg.at(b));
        reg[r]        = m;
      } else if (o == "L") {
        int a = vt::rd(is), b = vt::rd(is);
        ClockVector::max_emplace_left(reg.at(a), reg.at(b));
      } else if (o == "D") {
        int r = vt::rd(is);
        printf("D");
        for (unsigned aid = 0; aid < static_config::max_threads - 1; aid++)
          printf(" %ld", clockval(reg.at(r).get(Aid(aid))));
        printf("\n");
      } else if (o == "O") {
        Clock a = mkclock(vt::rd(is)), b = mkclock(vt::rd(is));
        printf("O %d %d %d\n", a < b, a == b, a > b);
      }
    } else {
      fprintf(stderr, "HARNESS: unknown command '%s'\n", c.c_str());
      return 3;
    }
  }
  printf("DONE %ld\n", ncmd);
  return 0;
}
