// E1-style harness shared by C05 (semaphores), C06 (condition variables) and C07 (barriers): actors execute scripted sequences on
// real s4u objects. Several independent scenarios (own objects, own actors) can be run side by side in one Engine (batching: a
// sanitized process takes seconds to start); every log line starts with the index of its scenario. Calls are recorded at the actor
// boundary:
//   "<i> Q <actor> <op> <obj> <arg> <clock>"            just before the call        (arg: timeout token, or '-')
//   "<i> A <actor> <op> <obj> <result> <clock> <owner>" right after it returned     (owner: 1 iff the paired mutex is owned by the caller, cv mode)
//   "<i> C <actor> <sem> <capacity> <clock>"            Semaphore::get_capacity() read by an actor (not a simcall)
//   "<i> K <where> <clock> <cap0> <cap1> ..."           capacities read by maestro at the quiescent hook, after every scheduling sub-round
//                                                       (or timer batch) since which the scenario logged something (sem mode)
//   "<i> D <actor>"                                     the actor finished its script
//   "<i> END <clock> <cap...>"                          Engine::run() returned
// stdin: per scenario a line "sem <c0> <c1> ..." | "cv <ncv>" | "bar <n0> <n1> ... [nosweep]", then one line per actor with tokens, then "--":
//   all modes: S<k> sleep k time units (unit = 2^-10 s, exactly representable, so that dates tie exactly), Y yield
//   sem: A<s> acquire, T<s>:<t> acquire_timeout, R<s> release, C<s> get_capacity, X<v> kill actor v if it is blocked in an acquire
//   cv:  L<v> lock mutex v, U<v> unlock, W<v> wait, F<v>:<t> wait_for, G<v>:<k> wait_until(date k units; "+k" = k units from now), N<v> notify_one, B<v> notify_all
//   bar: B<b> wait, X<v> kill actor v if it is blocked in a barrier wait
//   timeout token <t>: integer number of units | "t" (1e-12 s, below the timing precision) | "n" (-1 s; cv only)
// The harness only issues calls that respect the API contract (wait only while holding the paired mutex, unlock only what is held,
// at most one mutex held at a time, no relock of a held mutex).
#include <simgrid/s4u.hpp>
#include "src/verif_hooks.hpp"
#include <chrono>
#include <cstdio>
#include <mutex>
#include <iostream>
#include <memory>
#include <sstream>
#include <vector>
namespace sg4 = simgrid::s4u;

static const double UNIT = 1.0 / 1024;
struct Scn {
  int id;
  std::string mode;
  std::vector<sg4::SemaphorePtr> sems;
  std::vector<sg4::ConditionVariablePtr> cvs;
  std::vector<sg4::MutexPtr> mutexes;
  std::vector<sg4::BarrierPtr> bars;
  std::vector<sg4::ActorPtr> actors;
  std::vector<char> blocked; // actor a is inside an acquire/acquire_timeout call (set before the call, cleared after the return)
  std::vector<int> inwait;   // bar mode: barrier on which actor a (scripted or helper) is inside wait(), -1 otherwise
  bool dirty = false;        // something was logged since the last K line
  bool sweep = true;         // bar mode: complete trailing groups with helper actors once the scripts are stuck
  std::vector<unsigned> sizes; // bar mode: size of each barrier
  std::vector<char> fin; // scripted actor a finished its script or was killed
  size_t helpers = 0;
  size_t done() const
  {
    size_t n = 0;
    for (char f : fin)
      n += f;
    return n;
  }
  std::vector<std::vector<std::string>> scripts;
};
static std::vector<std::unique_ptr<Scn>> scns;

static double clk()
{
  return sg4::Engine::get_clock();
}
static double tmo(const std::string& t)
{
  if (t == "t")
    return 1e-12;
  if (t == "n")
    return -1.0;
  return std::stoi(t) * UNIT;
}
static void quiescent(int where)
{
  for (auto const& sc : scns) {
    if (not sc->dirty || sc->sems.empty())
      continue;
    printf("%d K %d %.17g", sc->id, where, clk());
    for (auto const& s : sc->sems)
      printf(" %d", s->get_capacity());
    printf("\n");
    sc->dirty = false;
  }
}
static void split(const std::string& op, int& obj, std::string& arg)
{
  auto colon = op.find(':');
  obj        = std::stoi(op.substr(1, colon == std::string::npos ? std::string::npos : colon - 1));
  arg        = colon == std::string::npos ? "-" : op.substr(colon + 1);
}

static void run_sem(Scn& sc, size_t a, const std::vector<std::string>& ops)
{
  int i = sc.id;
  for (auto const& op : ops) {
    int s;
    std::string arg;
    char k = op[0];
    if (k == 'Y') {
      sg4::this_actor::yield();
      continue;
    }
    split(op, s, arg);
    if (k == 'S') {
      sg4::this_actor::sleep_for(s * UNIT);
      continue;
    }
    if (k == 'A') {
      sc.dirty = true;
      printf("%d Q %zu A %d - %.17g\n", i, a, s, clk());
      sc.blocked[a] = 1;
      sc.sems[s]->acquire();
      sc.blocked[a] = 0;
      sc.dirty      = true;
      printf("%d A %zu A %d 0 %.17g 0\n", i, a, s, clk());
    } else if (k == 'T') {
      sc.dirty = true;
      printf("%d Q %zu T %d %s %.17g\n", i, a, s, arg.c_str(), clk());
      sc.blocked[a] = 1;
      bool to       = sc.sems[s]->acquire_timeout(tmo(arg));
      sc.blocked[a] = 0;
      sc.dirty      = true;
      printf("%d A %zu T %d %d %.17g 0\n", i, a, s, to ? 1 : 0, clk());
    } else if (k == 'R') {
      sc.dirty = true;
      printf("%d Q %zu R %d - %.17g\n", i, a, s, clk());
      sc.sems[s]->release();
      sc.dirty = true;
      printf("%d A %zu R %d 0 %.17g 0\n", i, a, s, clk());
    } else if (k == 'C') {
      sc.dirty = true;
      printf("%d C %zu %d %d %.17g\n", i, a, s, sc.sems[s]->get_capacity(), clk());
    } else if (k == 'X') {
      size_t v = s;
      if (v == a || v >= sc.actors.size() || not sc.blocked[v])
        continue;
      sc.dirty = true;
      printf("%d Q %zu X %zu - %.17g\n", i, a, v, clk());
      sc.blocked[v] = 0;
      sc.actors[v]->kill();
      sc.dirty = true;
      printf("%d A %zu X %zu 0 %.17g 0\n", i, a, v, clk());
    }
  }
}

static void run_cv(Scn& sc, size_t a, const std::vector<std::string>& ops)
{
  int i            = sc.id;
  int held         = -1;
  sg4::Actor* self = sg4::Actor::self();
  auto lock        = [&](int v) {
    printf("%d Q %zu L %d - %.17g\n", i, a, v, clk());
    sc.mutexes[v]->lock();
    held = v;
    printf("%d A %zu L %d 0 %.17g %d\n", i, a, v, clk(), sc.mutexes[v]->get_owner() == self ? 1 : 0);
  };
  auto unlock = [&]() {
    printf("%d Q %zu U %d - %.17g\n", i, a, held, clk());
    int v = held;
    sc.mutexes[v]->unlock();
    held = -1;
    printf("%d A %zu U %d 0 %.17g 0\n", i, a, v, clk());
  };
  for (auto const& op : ops) {
    int v;
    std::string arg;
    char k = op[0];
    if (k == 'Y') {
      sg4::this_actor::yield();
      continue;
    }
    split(op, v, arg);
    if (k == 'S') {
      sg4::this_actor::sleep_for(v * UNIT);
    } else if (k == 'L') {
      if (held == -1)
        lock(v);
    } else if (k == 'U') {
      if (held == v)
        unlock();
    } else if (k == 'W' || k == 'F' || k == 'G') {
      if (held != -1 && held != v)
        continue;
      if (held == -1)
        lock(v);
      printf("%d Q %zu %c %d %s %.17g\n", i, a, k, v, arg.c_str(), clk());
      int res = 0;
      if (k == 'W')
        sc.cvs[v]->wait(sc.mutexes[v]);
      else if (k == 'F') {
        // all the entry points of wait_for in turn: (MutexPtr, double), (unique_lock, double), (unique_lock, std::chrono duration)
        int entry = (i + (int)a) % 3;
        if (entry == 0) {
          res = sc.cvs[v]->wait_for(sc.mutexes[v], tmo(arg)) == std::cv_status::timeout;
        } else {
          std::unique_lock<sg4::Mutex> ul(*sc.mutexes[v], std::adopt_lock);
          if (entry == 1)
            res = sc.cvs[v]->wait_for(ul, tmo(arg)) == std::cv_status::timeout;
          else
            res = sc.cvs[v]->wait_for(ul, std::chrono::duration<double>(tmo(arg))) == std::cv_status::timeout;
          ul.release(); // the script unlocks through the MutexPtr
        }
      }
      else
        res = sc.cvs[v]->wait_until(sc.mutexes[v], (arg[0] == '+' ? clk() : 0.0) + std::stoi(arg) * UNIT) == std::cv_status::timeout;
      printf("%d A %zu %c %d %d %.17g %d\n", i, a, k, v, res, clk(), sc.mutexes[v]->get_owner() == self ? 1 : 0);
    } else if (k == 'N' || k == 'B') {
      printf("%d Q %zu %c %d - %.17g\n", i, a, k, v, clk());
      if (k == 'N')
        sc.cvs[v]->notify_one();
      else
        sc.cvs[v]->notify_all();
      printf("%d A %zu %c %d 0 %.17g 0\n", i, a, k, v, clk());
    }
  }
  if (held != -1)
    unlock();
}

static void run_bar(Scn& sc, size_t a, const std::vector<std::string>& ops)
{
  int i = sc.id;
  for (auto const& op : ops) {
    int b;
    std::string arg;
    char k = op[0];
    if (k == 'Y') {
      sg4::this_actor::yield();
      continue;
    }
    split(op, b, arg);
    if (k == 'S') {
      sg4::this_actor::sleep_for(b * UNIT);
    } else if (k == 'B') {
      printf("%d Q %zu B %d - %.17g\n", i, a, b, clk());
      sc.inwait[a] = b;
      int r        = sc.bars[b]->wait();
      sc.inwait[a] = -1;
      printf("%d A %zu B %d %d %.17g 0\n", i, a, b, r, clk());
    } else if (k == 'X') {
      size_t v = b;
      if (v == a || v >= sc.actors.size() || sc.inwait[v] < 0)
        continue;
      printf("%d Q %zu X %zu - %.17g\n", i, a, v, clk());
      sc.inwait[v] = -1;
      sc.fin[v] = 1; // the victim will not finish its script
      sc.actors[v]->kill();
      printf("%d A %zu X %zu 0 %.17g 0\n", i, a, v, clk());
    }
  }
}

// An actor blocked for ever on a barrier makes the simulation end with the kernel killing it, which is not what C07 is about: once
// every scripted actor is done or stuck, helper actors (numbered after the scripted ones, logged like them) arrive one at a time on a
// barrier where somebody is blocked, until nobody is blocked any more (this does not presuppose how many arrivals the kernel still
// expects, e.g. whether a killed waiter still counts). Before each helper the blocked actors are left alone for 64 time units
// (longer than any script): nobody may return meanwhile.
static const size_t MAX_HELPERS = 64;
static void run_sweeper(Scn& sc)
{
  auto hosts = sg4::Engine::get_instance()->get_all_hosts();
  while (true) {
    sg4::this_actor::sleep_for(64 * UNIT);
    int b = -1;
    for (int w : sc.inwait)
      if (w >= 0 && (b < 0 || w < b))
        b = w;
    if (b >= 0 && sc.helpers < MAX_HELPERS) {
      size_t a = sc.scripts.size() + sc.helpers++;
      hosts[a % hosts.size()]->add_actor("helper", [&sc, a, b]() {
        run_bar(sc, a, {"B" + std::to_string(b)});
        printf("%d D %zu\n", sc.id, a);
      });
    } else if (sc.done() == sc.scripts.size()) {
      return;
    }
  }
}

int main(int argc, char** argv)
{
  sg4::Engine e(&argc, argv);
  setvbuf(stdout, nullptr, _IOLBF, 0); // the history must survive an abort of the kernel
  e.load_platform(argv[1]);
  std::string line;
  Scn* cur = nullptr;
  while (std::getline(std::cin, line)) {
    std::istringstream is(line);
    std::vector<std::string> toks;
    std::string t;
    while (is >> t)
      toks.push_back(t);
    if (toks.empty())
      continue;
    if (toks[0] == "--") {
      cur = nullptr;
      continue;
    }
    if (cur == nullptr) {
      scns.push_back(std::make_unique<Scn>());
      cur       = scns.back().get();
      cur->id   = static_cast<int>(scns.size()) - 1;
      cur->mode = toks[0];
      for (size_t j = 1; j < toks.size(); j++) {
        if (toks[j] == "nosweep") {
          cur->sweep = false;
          continue;
        }
        int x = std::stoi(toks[j]);
        cur->sizes.push_back(x);
        if (cur->mode == "sem")
          cur->sems.push_back(sg4::Semaphore::create(x));
        else if (cur->mode == "bar")
          cur->bars.push_back(sg4::Barrier::create(x));
        else
          for (int c = 0; c < x; c++) {
            cur->cvs.push_back(sg4::ConditionVariable::create());
            cur->mutexes.push_back(sg4::Mutex::create());
          }
      }
    } else {
      cur->scripts.push_back(toks);
    }
  }
  auto hosts = e.get_all_hosts();
  size_t h   = 0;
  for (auto& scp : scns) {
    Scn* sc = scp.get();
    sc->blocked.assign(sc->scripts.size(), 0);
    sc->fin.assign(sc->scripts.size(), 0);
    sc->inwait.assign(sc->scripts.size() + MAX_HELPERS, -1);
    for (size_t a = 0; a < sc->scripts.size(); a++) {
      sc->actors.push_back(hosts[h++ % hosts.size()]->add_actor("s" + std::to_string(sc->id) + "a" + std::to_string(a), [sc, a]() {
        if (sc->mode == "sem")
          run_sem(*sc, a, sc->scripts[a]);
        else if (sc->mode == "cv")
          run_cv(*sc, a, sc->scripts[a]);
        else
          run_bar(*sc, a, sc->scripts[a]);
        sc->dirty = true;
        sc->fin[a] = 1;
        printf("%d D %zu\n", sc->id, a);
      }));
    }
    if (sc->mode == "bar" && sc->sweep)
      hosts[h++ % hosts.size()]->add_actor("sweeper", [sc]() { run_sweeper(*sc); });
  }
  simgrid::verif::on_kernel_quiescent = quiescent;
  e.run();
  simgrid::verif::on_kernel_quiescent = nullptr;
  for (auto const& sc : scns) {
    printf("%d END %.17g", sc->id, clk());
    for (auto const& s : sc->sems)
      printf(" %d", s->get_capacity());
    printf("\n");
  }
  scns.clear();
  return 0;
}
