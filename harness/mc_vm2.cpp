// E6 harness, second edition (C38/C40): copy of mc_vm.cpp (frozen, shared with C41/C14) plus
//   * asynchronous communications: per-actor comm slots with wait / test / wait_any / test_any, and mailbox iprobe;
//   * every terminal record also carries the executed transitions of the execution, rebuilt as *checker-side*
//     Transition objects (observer->serialize + deserialize_transition, the path the checker itself uses) and, for
//     each of them, the earlier transitions of other actors that the checker's own Transition::dispatch_depends()
//     declares dependent:   "T <kind> <trace> | <fingerprint> | <aid>:<times>:<TYPE>:<j,j,...> ..."
// Interpreter ("VM") of small synchronisation programs written in the line-oriented spec produced by
// lib/verif/gen/mcprog.py / mcprog2.py.  The same binary runs
//   * natively                     (every S4U call is one simcall; prints FINAL / DEADLOCK / ASSERT lines on stdout),
//   * under simgrid-mc             (terminal states are logged from the SIMGRID_VERIF hooks to the file $VERIF_MC_FP,
//                                   one write(2) per record: "T <kind> <trace> | <fingerprint>"),
//   * under --cfg=model-check/replay:<path>  (prints REPLAY <fingerprint> after Engine::run() returned).
//
// usage: mc_vm <spec-file> [simgrid options]
//
// Spec:   mutex <n> | sem <init>[b] ... | cond <n> | barrier <count> ... | mbox <n> | actor <op>... | dyn <op>...
// Actors are numbered in file order (actor lines first are started by main, dyn lines are started by a K op).
// Ops (all observations are functions of the Mazurkiewicz trace: counters are only touched while their object is held):
//   L<m> lock          U<m> unlock (skipped unless held)     T<m> try_lock (obs t<m>=0|1)
//   O<m> read+increment the counter of mutex m (skipped unless m is held; obs o<m>=v)
//   P<s> acquire       V<s> release (binary "b" semaphores: skipped unless held)   o<s> counter of binary semaphore s
//   W<c>.<m> cond wait (skipped unless m held)   w<c>.<m> timed cond wait (obs w<c>=1 on timeout)   N<c> notify_one   A<c> notify_all
//   R<b> barrier wait  S<x>.<v> put v on mailbox x   G<x> get (obs g<x>=v)
//   J<a> join actor a (skipped unless created)   K<d> create dyn actor d   Q<lo>.<hi> MC_random (obs q=v)
//   s<x>.<v> put_async (new comm slot)   r<x> get_async (new comm slot)   c<i> wait slot i (obs g<x>=v for a receive)
//   t<i> test slot i (obs t=0|1, then g<x>=v)   a wait_any over the pending slots (obs a=<slot>)   y test_any (obs y=<slot>|-1)
//   p<x>.<k> iprobe on mailbox x, k=0 looks for a pending send, k=1 for a pending receive (obs p<x>=0|1)
//   (c/t/a/y are skipped when there is no such pending slot; an actor waits for its pending slots before it ends)
//   I<n> skip the next n ops if the last observed value is 0     E<v> MC_assert(last != v)     Y sleep     X exit
// When an actor ends it releases the mutexes and binary semaphores it still holds (in increasing id order).
#include <simgrid/modelchecker.h>
#include <simgrid/s4u.hpp>
#include <simgrid/s4u/ActivitySet.hpp>

#include "src/kernel/EngineImpl.hpp"
#include "src/kernel/actor/ActorImpl.hpp"
#include "src/kernel/actor/SimcallObserver.hpp"
#include "src/mc/mc_replay.hpp"
#include "src/mc/remote/Channel.hpp"
#include "src/mc/transition/Transition.hpp"
#include "src/verif_hooks.hpp"

#include <cstdio>
#include <cstring>
#include <fcntl.h>
#include <fstream>
#include <set>
#include <sstream>
#include <unistd.h>
#include <vector>

namespace sg4 = simgrid::s4u;

struct Op {
  char k;
  int a = 0, b = 0;
};
struct ActorSpec {
  bool dyn = false;
  std::vector<Op> ops;
};
struct AState {
  int pc       = 0;
  bool created = false;
  bool done    = false;
  long pid     = -1;
  std::string obs;
  sg4::ActorPtr ref;
};

static std::vector<ActorSpec> spec;
static std::vector<AState> st;
static std::vector<sg4::MutexPtr> mutexes;
static std::vector<sg4::SemaphorePtr> sems;
static std::vector<bool> sem_binary;
static std::vector<sg4::ConditionVariablePtr> conds;
static std::vector<sg4::BarrierPtr> barriers;
static std::vector<sg4::Mailbox*> mboxes;
static std::vector<long> mcnt, scnt;
static std::vector<sg4::Host*> hosts;
static std::string trace;  // "pid/times;..." of the transitions executed so far in this process (inherited by forks)
static std::vector<simgrid::mc::Transition*> executed; // checker-side view of the same transitions (inherited by forks)
static int fp_fd         = -1;
static long n_quiescent  = 0;
static bool under_mc     = false;
static bool under_replay = false;

// failing >= 0: fingerprint at the instant actor `failing` fails an assertion in its local code: only its own position is
// meaningful then (the others may not have run their local step of this round yet), so theirs is reduced to "B".
static std::string fingerprint(bool with_observer, int failing = -1)
{
  std::string s;
  for (size_t i = 0; i < st.size(); i++) {
    const AState& S = st[i];
    if (i)
      s += "|";
    s += std::to_string(i) + ":";
    if (not S.created)
      s += "N";
    else if (S.done)
      s += "D";
    else {
      s += "B";
      if (failing < 0 || failing == (int)i)
        s += std::to_string(S.pc);
      if (failing < 0 && with_observer && S.ref) {
        auto* impl = S.ref->get_impl();
        if (impl->simcall_.observer_ != nullptr) {
          std::string o = impl->simcall_.observer_->to_string();
          s += "@" + o.substr(0, o.find('('));
        } else
          s += "@-";
      }
    }
    s += ":" + S.obs;
  }
  return s;
}

// The executed transitions with, for each, the earlier ones (of other actors) that the checker declares dependent.
static std::string dependency_log()
{
  std::string r;
  for (size_t i = 0; i < executed.size(); i++) {
    const auto* t = executed[i];
    if (i)
      r += " ";
    r += std::to_string(t->aid_.value()) + ":" + std::to_string(t->times_considered_) + ":" +
         simgrid::mc::Transition::to_c_str(t->type_) + ":";
    bool first = true;
    for (size_t j = 0; j < i; j++) {
      if (executed[j]->aid_ == t->aid_)
        continue;
      if (executed[j]->dispatch_depends(t)) {
        if (not first)
          r += ",";
        r += std::to_string(j);
        first = false;
      }
    }
  }
  return r;
}

static void emit(const char* kind, int failing = -1)
{
  std::string r = std::string("T ") + kind + " " + (trace.empty() ? "-" : trace) + " | " + fingerprint(true, failing) +
                  " | " + dependency_log() + "\n";
  if (fp_fd >= 0) {
    if (write(fp_fd, r.c_str(), r.size()) < 0)
      perror("write VERIF_MC_FP");
  }
}

static void hook_executed(simgrid::kernel::actor::ActorImpl* actor, int times)
{
  trace += std::to_string(actor->get_pid());
  if (times > 0)
    trace += "/" + std::to_string(times);
  trace += ";";
  // Same path as the checker: the observer, in its state right after the execution, serialised and deserialised
  static simgrid::mc::Channel* out = new simgrid::mc::Channel;
  static simgrid::mc::Channel* in  = new simgrid::mc::Channel;
  out->buffer_out_size_ = 0;
  in->buffer_in_next_ = in->buffer_in_size_ = 0;
  actor->simcall_.observer_->serialize(*out);
  in->reinject(out->buffer_out_, out->buffer_out_size_);
  out->buffer_out_size_ = 0;
  executed.push_back(simgrid::mc::deserialize_transition(simgrid::mc::Aid((int)actor->get_pid()), times, *in));
}

static void hook_quiescent()
{
  n_quiescent++;
  auto const& list = simgrid::kernel::EngineImpl::get_instance()->get_actor_list();
  bool any         = false;
  // same evaluation (all actors, in pid order) as the one AppSide does right after this hook to answer the checker
  for (auto const& [pid, actor] : list) {
    auto* o = actor->simcall_.observer_;
    bool en = o != nullptr ? o->is_enabled() : actor->simcall_.call_ != simgrid::kernel::actor::Simcall::Type::NONE;
    any     = any || en;
  }
  if (any)
    return;
  emit(list.empty() ? "END" : "DEADLOCK");
}

static void body(int me);

static void start_actor(int idx)
{
  AState& S = st[idx];
  auto a    = hosts[idx % hosts.size()]->add_actor("a" + std::to_string(idx), [idx]() { body(idx); });
  S.ref     = a;
  S.pid     = a->get_pid();
  S.created = true;
}

struct Slot {
  sg4::CommPtr comm;
  bool recv    = false;
  bool pending = true;
  int mbox     = 0;
  long* buf    = nullptr; // receive buffer (the payload pointer lands here)
};

static void body(int me)
{
  AState& S = st[me];
  std::set<int> heldm, helds;
  std::vector<Slot> slots;
  long last       = 0;
  auto const& ops = spec[me].ops;
  slots.reserve(ops.size() + 1);
  auto obs        = [&S, &last](const std::string& name, long v) {
    S.obs += name + "=" + std::to_string(v) + ",";
    last = v;
  };
  auto completed = [&](int i) { // bookkeeping of a finished communication (local code)
    Slot& sl   = slots[i];
    sl.pending = false;
    if (sl.recv) {
      obs("g" + std::to_string(sl.mbox), *sl.buf);
      delete sl.buf;
      sl.buf = nullptr;
    }
  };
  auto pending_set = [&](sg4::ActivitySet& set, std::vector<int>& idx) {
    for (size_t i = 0; i < slots.size(); i++)
      if (slots[i].pending) {
        set.push(slots[i].comm);
        idx.push_back((int)i);
      }
  };
  auto slot_of = [&](const sg4::ActivityPtr& a) {
    for (size_t i = 0; i < slots.size(); i++)
      if (slots[i].pending && slots[i].comm.get() == a.get())
        return (int)i;
    return -1;
  };
  auto epilogue = [&]() {
    S.pc = (int)ops.size();
    for (int m : heldm)
      mutexes[m]->unlock();
    heldm.clear();
    for (int s : helds)
      sems[s]->release();
    helds.clear();
    for (size_t i = 0; i < slots.size(); i++)
      if (slots[i].pending) {
        slots[i].comm->wait();
        completed((int)i);
      }
  };
  for (S.pc = 0; S.pc < (int)ops.size(); S.pc++) {
    const Op& o = ops[S.pc];
    switch (o.k) {
      case 'L':
        mutexes[o.a]->lock();
        heldm.insert(o.a);
        break;
      case 'U':
        if (heldm.count(o.a)) {
          heldm.erase(o.a); // before the call: the unlock transition is always enabled and cannot fail
          mutexes[o.a]->unlock();
        }
        break;
      case 'T': {
        bool ok = mutexes[o.a]->try_lock();
        if (ok)
          heldm.insert(o.a);
        obs("t" + std::to_string(o.a), ok);
        break;
      }
      case 'O':
        if (heldm.count(o.a))
          obs("o" + std::to_string(o.a), mcnt[o.a]++);
        break;
      case 'P':
        sems[o.a]->acquire();
        if (sem_binary[o.a])
          helds.insert(o.a);
        break;
      case 'V':
        if (not sem_binary[o.a])
          sems[o.a]->release();
        else if (helds.count(o.a)) {
          helds.erase(o.a);
          sems[o.a]->release();
        }
        break;
      case 'o':
        if (sem_binary[o.a] && helds.count(o.a))
          obs("s" + std::to_string(o.a), scnt[o.a]++);
        break;
      case 'W':
        if (heldm.count(o.b))
          conds[o.a]->wait(mutexes[o.b]);
        break;
      case 'w':
        if (heldm.count(o.b)) {
          auto r = conds[o.a]->wait_for(mutexes[o.b], 1.0);
          obs("w" + std::to_string(o.a), r == std::cv_status::timeout);
        }
        break;
      case 'N':
        conds[o.a]->notify_one();
        break;
      case 'A':
        conds[o.a]->notify_all();
        break;
      case 'R':
        barriers[o.a]->wait();
        break;
      case 'S':
        mboxes[o.a]->put(new long(o.b), 100);
        break;
      case 'G': {
        long* p = mboxes[o.a]->get<long>();
        obs("g" + std::to_string(o.a), *p);
        delete p;
        break;
      }
      case 's': {
        Slot sl;
        sl.mbox = o.a;
        sl.comm = mboxes[o.a]->put_async(new long(o.b), 100);
        slots.push_back(sl);
        break;
      }
      case 'r': {
        Slot sl;
        sl.mbox = o.a;
        sl.recv = true;
        sl.buf  = nullptr;
        slots.push_back(sl);
        // the address of the buffer must stay valid: slots never shrink and are reserved below
        slots.back().comm = mboxes[o.a]->get_async<long>(&slots.back().buf);
        break;
      }
      case 'c':
        if (o.a < (int)slots.size() && slots[o.a].pending) {
          slots[o.a].comm->wait();
          completed(o.a);
        }
        break;
      case 't':
        if (o.a < (int)slots.size() && slots[o.a].pending) {
          bool ok = slots[o.a].comm->test();
          obs("t", ok);
          if (ok)
            completed(o.a);
        }
        break;
      case 'a': {
        sg4::ActivitySet set;
        std::vector<int> idx;
        pending_set(set, idx);
        if (not idx.empty()) {
          auto done = set.wait_any();
          int i     = slot_of(done);
          obs("a", i);
          if (i >= 0)
            completed(i);
        }
        break;
      }
      case 'y': {
        sg4::ActivitySet set;
        std::vector<int> idx;
        pending_set(set, idx);
        if (not idx.empty()) {
          auto done = set.test_any();
          int i     = done ? slot_of(done) : -1;
          obs("y", i);
          if (i >= 0)
            completed(i);
        }
        break;
      }
      case 'p': {
        auto found = mboxes[o.a]->iprobe(o.b == 0 ? sg4::Mailbox::IprobeKind::RECV : sg4::Mailbox::IprobeKind::SEND,
                                         [](void*, void*, simgrid::kernel::activity::CommImpl*) { return true; }, nullptr);
        obs("p" + std::to_string(o.a), found != nullptr);
        break;
      }
      case 'J':
        if (st[o.a].created && o.a != me)
          st[o.a].ref->join();
        break;
      case 'K':
        if (not st[o.a].created) {
          // the creation is one visible transition (ACTOR_CREATE); the bookkeeping below runs in the same local step
          start_actor(o.a);
        }
        break;
      case 'Q':
        obs("q", MC_random(o.a, o.b));
        break;
      case 'I':
        if (last == 0)
          S.pc += o.a;
        break;
      case 'E':
        if (last == o.a) {
          if (under_mc)
            emit("ASSERT", me);
          else {
            printf("ASSERT %s\n", fingerprint(false, me).c_str());
            fflush(stdout);
          }
        }
        MC_assert(last != o.a);
        break;
      case 'Y':
        sg4::this_actor::sleep_for(0.001);
        break;
      case 'X':
        epilogue();
        S.done = true;
        sg4::this_actor::exit();
        break;
      default:
        fprintf(stderr, "mc_vm: unknown op %c\n", o.k);
        abort();
    }
  }
  epilogue();
  S.done = true;
}

static bool parse(const char* path)
{
  std::ifstream f(path);
  if (not f)
    return false;
  std::string line;
  while (std::getline(f, line)) {
    std::istringstream is(line);
    std::string w;
    if (not(is >> w) || w[0] == '#')
      continue;
    if (w == "mutex") {
      int n;
      is >> n;
      for (int i = 0; i < n; i++)
        mutexes.push_back(sg4::Mutex::create());
      mcnt.assign(n, 0);
    } else if (w == "sem") {
      std::string t;
      while (is >> t) {
        bool b = t.back() == 'b';
        if (b)
          t.pop_back();
        sems.push_back(sg4::Semaphore::create(std::stoi(t)));
        sem_binary.push_back(b);
      }
      scnt.assign(sems.size(), 0);
    } else if (w == "cond") {
      int n;
      is >> n;
      for (int i = 0; i < n; i++)
        conds.push_back(sg4::ConditionVariable::create());
    } else if (w == "barrier") {
      int c;
      while (is >> c)
        barriers.push_back(sg4::Barrier::create(c));
    } else if (w == "mbox") {
      int n;
      is >> n;
      for (int i = 0; i < n; i++)
        mboxes.push_back(sg4::Mailbox::by_name("x" + std::to_string(i)));
    } else if (w == "actor" || w == "dyn") {
      ActorSpec a;
      a.dyn = w == "dyn";
      std::string t;
      while (is >> t) {
        Op o;
        o.k = t[0];
        if (t.size() > 1) {
          auto dot = t.find('.');
          o.a      = std::stoi(t.substr(1, dot == std::string::npos ? std::string::npos : dot - 1));
          if (dot != std::string::npos)
            o.b = std::stoi(t.substr(dot + 1));
        }
        a.ops.push_back(o);
      }
      spec.push_back(a);
    } else {
      fprintf(stderr, "mc_vm: unknown spec line: %s\n", line.c_str());
      return false;
    }
  }
  return true;
}

int main(int argc, char** argv)
{
  sg4::Engine e(&argc, argv);
  setvbuf(stdout, nullptr, _IOLBF, 0);
  if (argc < 2) {
    fprintf(stderr, "usage: mc_vm2 spec [platform.xml]\n");
    return 2;
  }
  if (argc >= 3)
    e.load_platform(argv[2]);
  else {
    auto* z = e.get_netzone_root()->add_netzone_full("z");
    z->add_host("h", 1e9);
    z->seal();
  }
  hosts = e.get_all_hosts();
  if (not parse(argv[1])) {
    fprintf(stderr, "mc_vm: cannot parse %s\n", argv[1]);
    return 2;
  }
  st.resize(spec.size());
  under_mc     = MC_is_active();
  under_replay = MC_record_replay_is_active();
  if (const char* p = getenv("VERIF_MC_FP"); p != nullptr && under_mc) {
    fp_fd = open(p, O_WRONLY | O_APPEND | O_CREAT, 0644);
    simgrid::verif::on_mc_executed  = hook_executed;
    simgrid::verif::on_mc_quiescent = hook_quiescent;
  }
  sg4::Engine::on_deadlock_cb([]() { printf("DEADLOCK %s\n", fingerprint(false).c_str()); });
  for (size_t i = 0; i < spec.size(); i++)
    if (not spec[i].dyn)
      start_actor((int)i);
  e.run();
  printf("%s %s\n", under_replay ? "REPLAY" : "FINAL", fingerprint(under_replay).c_str());
  return 0;
}
