// Harness for C20 (isolated activities follow the documented formulas).
// The platform is built programmatically (C++ platform API) from the numbers read on stdin, then ONE actor executes the
// listed activities one after the other (each one alone on its resources) and prints, per activity,
//   "<op#> <kind> <clock before> <clock after> <activity start> <activity finish>"          (%.17g)
// Model and options come from the command line (--cfg=network/model:..., --cfg=host/model:ptask_L07 ...).
//
// stdin: platform part (see plat.hpp), then
// ops:
//   E <host> <pstate> <threads> <bound|-1> <flops>    exec
//   S <duration>                                      sleep
//   C <src> <dst> <bytes>                             direct host-to-host comm
//   I <disk> <R|W> <bytes>                            I/O
//   P <n> (<host> <flops>)*                           parallel task of pure computation
#include "plat.hpp"
#include <cstdio>
namespace sg4 = simgrid::s4u;

int main(int argc, char** argv)
{
  sg4::Engine e(&argc, argv);
  setvbuf(stdout, nullptr, _IOLBF, 0);
  Plat plat   = read_platform(e, std::cin);
  auto& hosts = plat.hosts;
  auto& disks = plat.disks;
  auto& ops   = plat.rest;
  auto* first = plat.host_list.front();
  first->add_actor("driver", [&]() {
    long n = 0;
    for (auto const& l : ops) {
      std::istringstream is(l);
      std::string k;
      is >> k;
      double t0 = sg4::Engine::get_clock(), st = -1, ft = -1;
      if (k == "E") {
        std::string h;
        int ps, th;
        double bound, fl;
        is >> h >> ps >> th >> bound >> fl;
        hosts.at(h)->set_pstate(ps);
        t0       = sg4::Engine::get_clock();
        auto ex  = sg4::Exec::init()->set_host(hosts.at(h))->set_flops_amount(fl);
        if (th != 1)
          ex->set_thread_count(th);
        if (bound > 0)
          ex->set_bound(bound);
        ex->start()->wait();
        st = ex->get_start_time();
        ft = ex->get_finish_time();
        double t1 = sg4::Engine::get_clock();
        hosts.at(h)->set_pstate(0); // every activity starts from the same platform state
        printf("%ld %s %.17g %.17g %.17g %.17g\n", n++, k.c_str(), t0, t1, st, ft);
        continue;
      } else if (k == "S") {
        double d;
        is >> d;
        sg4::this_actor::sleep_for(d);
      } else if (k == "C") {
        std::string s, d;
        double sz;
        is >> s >> d >> sz;
        auto c = sg4::Comm::sendto_init(hosts.at(s), hosts.at(d))->set_payload_size(sz);
        c->start()->wait();
        st = c->get_start_time();
        ft = c->get_finish_time();
      } else if (k == "I") {
        std::string d, rw;
        double sz;
        is >> d >> rw >> sz;
        auto io = disks.at(d)->io_init((sg_size_t)sz, rw == "R" ? sg4::Io::OpType::READ : sg4::Io::OpType::WRITE);
        io->start()->wait();
        st = io->get_start_time();
        ft = io->get_finish_time();
      } else if (k == "P") {
        int cnt;
        is >> cnt;
        std::vector<sg4::Host*> hl;
        std::vector<double> fl;
        for (int i = 0; i < cnt; i++) {
          std::string h;
          double f;
          is >> h >> f;
          hl.push_back(hosts.at(h));
          fl.push_back(f);
        }
        auto ex = sg4::Exec::init()->set_hosts(hl)->set_flops_amounts(fl)->set_bytes_amounts(
            std::vector<double>(hl.size() * hl.size(), 0.0));
        ex->start()->wait();
        st = ex->get_start_time();
        ft = ex->get_finish_time();
      }
      double t1 = sg4::Engine::get_clock();
      printf("%ld %s %.17g %.17g %.17g %.17g\n", n, k.c_str(), t0, t1, st, ft);
      n++;
    }
    printf("END %ld\n", n);
  });
  e.run();
  return 0;
}
