// Harness for C20 (isolated activities follow the documented formulas).
// The platform is built programmatically (C++ platform API) from the numbers read on stdin, then ONE actor executes the
// listed activities one after the other (each one alone on its resources) and prints, per activity,
//   "<op#> <kind> <clock before> <clock after> <activity start> <activity finish>"          (%.17g)
// Model and options come from the command line (--cfg=network/model:..., --cfg=host/model:ptask_L07 ...).
//
// stdin, platform part:
//   H <name> <cores> <npstates> <speed0> ...       host
//   L <name> <bw> <lat> <S|F|D>                    link: Shared, Fatpipe, split-Duplex
//   R <src> <dst> <sym 0|1> <n> (<link> <N|U|D>)*  route
//   D <host> <name> <read_bw> <write_bw>           disk
//   X                                              end of platform (seal)
// ops:
//   E <host> <pstate> <threads> <bound|-1> <flops>    exec
//   S <duration>                                      sleep
//   C <src> <dst> <bytes>                             direct host-to-host comm
//   I <disk> <R|W> <bytes>                            I/O
//   P <n> (<host> <flops>)*                           parallel task of pure computation
#include <simgrid/s4u.hpp>
#include <cstdio>
#include <iostream>
#include <map>
#include <sstream>
#include <vector>
namespace sg4 = simgrid::s4u;

int main(int argc, char** argv)
{
  sg4::Engine e(&argc, argv);
  setvbuf(stdout, nullptr, _IOLBF, 0);
  auto* zone = e.get_netzone_root()->add_netzone_full("z");
  std::map<std::string, sg4::Host*> hosts;
  std::map<std::string, sg4::Link*> links;
  std::map<std::string, sg4::SplitDuplexLink*> dlinks;
  std::map<std::string, sg4::Disk*> disks;
  std::vector<std::string> ops;
  std::string line;
  bool plat_done = false;
  sg4::Host* first = nullptr;
  while (std::getline(std::cin, line)) {
    if (line.empty())
      continue;
    if (plat_done) {
      ops.push_back(line);
      continue;
    }
    std::istringstream is(line);
    std::string k;
    is >> k;
    if (k == "H") {
      std::string name;
      int cores, np;
      is >> name >> cores >> np;
      std::vector<double> sp(np);
      for (auto& s : sp)
        is >> s;
      hosts[name] = zone->add_host(name, sp)->set_core_count(cores);
      if (not first)
        first = hosts[name];
    } else if (k == "L") {
      std::string name, pol;
      double bw, lat;
      is >> name >> bw >> lat >> pol;
      if (pol == "D") {
        dlinks[name] = zone->add_split_duplex_link(name, bw);
        dlinks[name]->set_latency(lat);
      } else {
        links[name] = zone->add_link(name, bw)->set_latency(lat);
        if (pol == "F")
          links[name]->set_sharing_policy(sg4::Link::SharingPolicy::FATPIPE);
      }
    } else if (k == "R") {
      std::string s, d;
      int sym, n;
      is >> s >> d >> sym >> n;
      std::vector<sg4::LinkInRoute> r;
      for (int i = 0; i < n; i++) {
        std::string ln, dir;
        is >> ln >> dir;
        if (dlinks.count(ln))
          r.emplace_back(dlinks[ln], dir == "U" ? sg4::LinkInRoute::Direction::UP : sg4::LinkInRoute::Direction::DOWN);
        else
          r.emplace_back(links.at(ln));
      }
      zone->add_route(hosts.at(s), hosts.at(d), r, sym != 0);
    } else if (k == "D") {
      std::string h, name;
      double r, w;
      is >> h >> name >> r >> w;
      disks[name] = hosts.at(h)->add_disk(name, r, w);
    } else if (k == "X") {
      zone->seal();
      plat_done = true;
    }
  }
  first->add_actor("driver", [&]() {
    long n = 0;
    for (auto const& l : ops) {
      std::istringstream is(l);
      std::string k;
      is >> k;
      double t0 = sg4::Engine::get_clock(), st = -1, ft = -1;
      if (k == "E") {
        std::string h;
        int ps, th;
        double bound, fl;
        is >> h >> ps >> th >> bound >> fl;
        hosts.at(h)->set_pstate(ps);
        t0       = sg4::Engine::get_clock();
        auto ex  = sg4::Exec::init()->set_host(hosts.at(h))->set_flops_amount(fl);
        if (th != 1)
          ex->set_thread_count(th);
        if (bound > 0)
          ex->set_bound(bound);
        ex->start()->wait();
        st = ex->get_start_time();
        ft = ex->get_finish_time();
      } else if (k == "S") {
        double d;
        is >> d;
        sg4::this_actor::sleep_for(d);
      } else if (k == "C") {
        std::string s, d;
        double sz;
        is >> s >> d >> sz;
        auto c = sg4::Comm::sendto_init(hosts.at(s), hosts.at(d))->set_payload_size(sz);
        c->start()->wait();
        st = c->get_start_time();
        ft = c->get_finish_time();
      } else if (k == "I") {
        std::string d, rw;
        double sz;
        is >> d >> rw >> sz;
        auto io = disks.at(d)->io_init((sg_size_t)sz, rw == "R" ? sg4::Io::OpType::READ : sg4::Io::OpType::WRITE);
        io->start()->wait();
        st = io->get_start_time();
        ft = io->get_finish_time();
      } else if (k == "P") {
        int cnt;
        is >> cnt;
        std::vector<sg4::Host*> hl;
        std::vector<double> fl;
        for (int i = 0; i < cnt; i++) {
          std::string h;
          double f;
          is >> h >> f;
          hl.push_back(hosts.at(h));
          fl.push_back(f);
        }
        auto ex = sg4::Exec::init()->set_hosts(hl)->set_flops_amounts(fl)->set_bytes_amounts(
            std::vector<double>(hl.size() * hl.size(), 0.0));
        ex->start()->wait();
        st = ex->get_start_time();
        ft = ex->get_finish_time();
      }
      double t1 = sg4::Engine::get_clock();
      printf("%ld %s %.17g %.17g %.17g %.17g\n", n, k.c_str(), t0, t1, st, ft);
      n++;
    }
    printf("END %ld\n", n);
  });
  e.run();
  return 0;
}
