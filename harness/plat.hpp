// Shared by iso.cpp (C20) and conserve.cpp (C21): builds a platform through the C++ platform API from plain numbers.
//   H <name> <cores> <npstates> <speed0> ...       host
//   L <name> <bw> <lat> <S|F|D>                    link: Shared, Fatpipe, split-Duplex
//   R <src> <dst> <sym 0|1> <n> (<link> <N|U|D>)*  route
//   D <host> <name> <read_bw> <write_bw>           disk
//   X                                              end of platform (seal); the remaining lines are returned to the caller
#ifndef VERIF_PLAT_HPP
#define VERIF_PLAT_HPP
#include <simgrid/s4u.hpp>
#include <iostream>
#include <map>
#include <sstream>
#include <string>
#include <vector>

struct Plat {
  std::map<std::string, simgrid::s4u::Host*> hosts;
  std::vector<simgrid::s4u::Host*> host_list;
  std::map<std::string, simgrid::s4u::Link*> links;
  std::map<std::string, simgrid::s4u::SplitDuplexLink*> dlinks;
  std::map<std::string, simgrid::s4u::Disk*> disks;
  std::vector<std::string> rest;
};

inline Plat read_platform(simgrid::s4u::Engine& e, std::istream& in)
{
  namespace sg4 = simgrid::s4u;
  Plat p;
  auto* zone = e.get_netzone_root()->add_netzone_full("z");
  std::string line;
  bool plat_done = false;
  while (std::getline(in, line)) {
    if (line.empty())
      continue;
    if (plat_done) {
      p.rest.push_back(line);
      continue;
    }
    std::istringstream is(line);
    std::string k;
    is >> k;
    if (k == "H") {
      std::string name;
      int cores, np;
      is >> name >> cores >> np;
      std::vector<double> sp(np);
      for (auto& s : sp)
        is >> s;
      p.hosts[name] = zone->add_host(name, sp)->set_core_count(cores);
      p.host_list.push_back(p.hosts[name]);
    } else if (k == "L") {
      std::string name, pol;
      double bw, lat;
      is >> name >> bw >> lat >> pol;
      if (pol == "D") {
        p.dlinks[name] = zone->add_split_duplex_link(name, bw);
        p.dlinks[name]->set_latency(lat);
      } else {
        p.links[name] = zone->add_link(name, bw)->set_latency(lat);
        if (pol == "F")
          p.links[name]->set_sharing_policy(sg4::Link::SharingPolicy::FATPIPE);
      }
    } else if (k == "R") {
      std::string s, d;
      int sym, n;
      is >> s >> d >> sym >> n;
      std::vector<sg4::LinkInRoute> r;
      for (int i = 0; i < n; i++) {
        std::string ln, dir;
        is >> ln >> dir;
        if (p.dlinks.count(ln))
          r.emplace_back(p.dlinks[ln],
                         dir == "U" ? sg4::LinkInRoute::Direction::UP : sg4::LinkInRoute::Direction::DOWN);
        else
          r.emplace_back(p.links.at(ln));
      }
      zone->add_route(p.hosts.at(s), p.hosts.at(d), r, sym != 0);
    } else if (k == "D") {
      std::string h, name;
      double r, w;
      is >> h >> name >> r >> w;
      p.disks[name] = p.hosts.at(h)->add_disk(name, r, w);
    } else if (k == "X") {
      zone->seal();
      plat_done = true;
    }
  }
  return p;
}
#endif
