// C44: S4U program run under the real simgrid-mc --cfg=model-check/reduction:udpor (end-to-end confirmation of what unf.cpp finds
// in the udpor classes).
// generic mutex program: one argument per actor; an argument is a ';'-separated list of groups, a group is a ','-separated
// list of mutex indices locked in that order and released in reverse order.  "0,1;2" = lock 0, lock 1, unlock 1, unlock 0, lock 2, unlock 2
#include <simgrid/s4u.hpp>
#include <sstream>
#include <vector>
namespace sg4 = simgrid::s4u;
int main(int argc, char* argv[])
{
  sg4::Engine e(&argc, argv);
  auto* zone = e.get_netzone_root();
  auto* h    = zone->add_host("h", 1e9);
  zone->seal();
  std::vector<sg4::MutexPtr> mx;
  for (int i = 0; i < 8; i++)
    mx.push_back(sg4::Mutex::create());
  for (int a = 1; a < argc; a++) {
    std::vector<std::vector<int>> groups;
    std::stringstream ss(argv[a]);
    std::string g;
    while (std::getline(ss, g, ';')) {
      std::vector<int> v;
      std::stringstream gs(g);
      std::string x;
      while (std::getline(gs, x, ','))
        v.push_back(std::stoi(x));
      groups.push_back(v);
    }
    h->add_actor("a" + std::to_string(a), [groups, &mx]() {
      for (auto const& g : groups) {
        for (int i : g)
          mx[i]->lock();
        for (auto it = g.rbegin(); it != g.rend(); ++it)
          mx[*it]->unlock();
      }
    });
  }
  e.run();
  return 0;
}
