// Harness for C21 (work is conserved and capacity is respected over time).
// Builds the platform of plat.hpp, runs generated concurrent actors and logs, at every Engine::on_time_advance:
//   T <now> <delta> <lmm solves since the previous T>
//   A <id> <remaining> <rate>                  one per registered activity that was started and whose owner has not yet seen it complete
//   U <H|L|DR|DW|DT> <name> <load> <capacity>  one per resource with a non-zero load (Host::get_load, Link::get_load, disk constraints)
// and, from the owning actor:
//   B <id> <clock> <kind>                      right after start()
//   F <id> <clock> <start_time> <finish_time>  right after wait() returned
//   Z <id> <clock> / R <id> <clock>            right after Activity::suspend() / resume()
//   P <host> <pstate> <speed> <clock>          right after Host::set_pstate()
// remaining = Activity::get_remaining() (public API) while the kernel action is running; once the action is finished but not yet
// reported to the activity, the value stored in the action is read (the public getter aborts in that window under the Lazy update).
// rate = value of the action's LMM variable * rate factor, i.e. the speed at which the kernel consumed the work during the interval
// that just elapsed (no solve happens between the update of the actions and on_time_advance).
//
// One case on stdin = platform (plat.hpp) then:
//   A <actor> <host>                            starts the script of a new actor
//   S <d>                                       sleep
//   P <host> <pstate>                           change the pstate of a host
//   E <id> <host> <flops> <bound|-1> <priority> <threads>
//   C <id> <src> <dst> <bytes>
//   I <id> <disk> <R|W> <bytes>
//   G <n> <z>                                   the next n activity lines are started together; then the z following lines
//   Z <id> <d1> <d2>                               sleep d1, suspend activity id if it still runs, sleep d2, resume it
//                                               are executed; then the n activities are waited in order
// Batch mode (first line "CASE ..."): stdin = sequence of   CASE <tag> <engine flags...> / <case lines> / ENDCASE ; every case
// runs in a forked child (one Engine per process; the fork only saves the start-up cost) and the parent prints
//   CASE <tag>  ... child log ...  DONE <tag> <exit code|-1> <signal|0>
#include "plat.hpp"
#include "src/kernel/activity/ActivityImpl.hpp"
#include "src/kernel/lmm/maxmin.hpp"
#include "src/kernel/resource/DiskImpl.hpp"
#include "src/verif_hooks.hpp"
#include <cstdio>
#include <cstdlib>
#include <sys/wait.h>
#include <unistd.h>
namespace sg4 = simgrid::s4u;
using simgrid::kernel::resource::Action;

struct Rec {
  long id;
  sg4::ActivityPtr act;
  bool live = false;
};
static std::map<long, Rec> recs;
static Plat plat;
static long nsolves     = 0;
static bool public_only = false;

static void on_solved(simgrid::kernel::lmm::System*)
{
  nsolves++;
}

static void on_advance(double delta)
{
  printf("T %.17g %.17g %ld\n", sg4::Engine::get_clock(), delta, nsolves);
  nsolves = 0;
  for (auto& [id, r] : recs) {
    if (not r.live)
      continue;
    auto* impl  = r.act->get_impl();
    Action* a   = impl->model_action_;
    double rate = a ? a->get_rate() : 0.0;
    double rem;
    if (a && a->get_state() != Action::State::STARTED && not public_only)
      rem = a->get_remains_no_update();
    else
      rem = r.act->get_remaining();
    printf("A %ld %.17g %.17g\n", id, rem, rate);
  }
  for (auto* h : plat.host_list) {
    double l = h->get_load();
    if (l != 0)
      printf("U H %s %.17g %.17g\n", h->get_cname(), l, h->get_speed() * h->get_core_count() * h->get_available_speed());
  }
  for (auto& [n, l] : plat.links)
    if (double v = l->get_load(); v != 0)
      printf("U L %s %.17g %.17g\n", n.c_str(), v, l->get_bandwidth());
  for (auto& [n, d] : plat.dlinks) {
    if (double v = d->get_link_up()->get_load(); v != 0)
      printf("U L %s:U %.17g %.17g\n", n.c_str(), v, d->get_link_up()->get_bandwidth());
    if (double v = d->get_link_down()->get_load(); v != 0)
      printf("U L %s:D %.17g %.17g\n", n.c_str(), v, d->get_link_down()->get_bandwidth());
  }
  for (auto& [n, d] : plat.disks) {
    auto* di = d->get_impl();
    if (double v = di->get_read_constraint()->get_load(); v != 0)
      printf("U DR %s %.17g %.17g\n", n.c_str(), v, d->get_read_bandwidth());
    if (double v = di->get_write_constraint()->get_load(); v != 0)
      printf("U DW %s %.17g %.17g\n", n.c_str(), v, d->get_write_bandwidth());
    if (double v = di->get_constraint()->get_load(); v != 0)
      printf("U DT %s %.17g %.17g\n", n.c_str(), v, std::max(d->get_read_bandwidth(), d->get_write_bandwidth()));
  }
}

static sg4::ActivityPtr make(const std::string& line, long& id)
{
  std::istringstream is(line);
  std::string k;
  is >> k >> id;
  if (k == "E") {
    std::string h;
    double fl, bound, prio;
    int th;
    is >> h >> fl >> bound >> prio >> th;
    auto ex = sg4::Exec::init()->set_host(plat.hosts.at(h))->set_flops_amount(fl);
    if (th != 1)
      ex->set_thread_count(th);
    if (bound > 0)
      ex->set_bound(bound);
    if (prio != 1)
      ex->set_priority(prio);
    return ex;
  }
  if (k == "C") {
    std::string s, d;
    double sz;
    is >> s >> d >> sz;
    return sg4::Comm::sendto_init(plat.hosts.at(s), plat.hosts.at(d))->set_payload_size(sz);
  }
  if (k == "I") {
    std::string d, rw;
    double sz;
    is >> d >> rw >> sz;
    return plat.disks.at(d)->io_init((sg_size_t)sz, rw == "R" ? sg4::Io::OpType::READ : sg4::Io::OpType::WRITE);
  }
  fprintf(stderr, "bad op %s\n", line.c_str());
  abort();
}

static void begin(sg4::ActivityPtr a, long id, char kind)
{
  recs[id] = Rec{id, a, false};
  a->start();
  recs[id].live = true;
  printf("B %ld %.17g %c\n", id, sg4::Engine::get_clock(), kind);
}
static void end(long id)
{
  auto& r = recs[id];
  r.act->wait();
  printf("F %ld %.17g %.17g %.17g\n", id, sg4::Engine::get_clock(), r.act->get_start_time(), r.act->get_finish_time());
  r.live = false;
  r.act  = nullptr;
}

static void actor(std::vector<std::string> script)
{
  for (size_t i = 0; i < script.size(); i++) {
    std::istringstream is(script[i]);
    std::string k;
    is >> k;
    if (k == "S") {
      double d;
      is >> d;
      sg4::this_actor::sleep_for(d);
    } else if (k == "P") {
      std::string h;
      int ps;
      is >> h >> ps;
      auto* host = plat.hosts.at(h);
      host->set_pstate(ps);
      printf("P %s %d %.17g %.17g\n", h.c_str(), ps, host->get_speed(), sg4::Engine::get_clock());
    } else if (k == "G") {
      int n;
      int z = 0;
      is >> n >> z;
      std::vector<long> ids;
      for (int j = 0; j < n; j++) {
        long id;
        auto a = make(script[++i], id);
        begin(a, id, script[i][0]);
        ids.push_back(id);
      }
      for (int j = 0; j < z; j++) {
        std::istringstream zs(script[++i]);
        std::string zk;
        long id;
        double d1, d2;
        zs >> zk >> id >> d1 >> d2;
        sg4::this_actor::sleep_for(d1);
        auto& r = recs[id];
        if (r.act->test())
          continue; // already over: nothing to suspend
        r.act->suspend();
        printf("Z %ld %.17g\n", id, sg4::Engine::get_clock());
        sg4::this_actor::sleep_for(d2);
        r.act->resume();
        printf("R %ld %.17g\n", id, sg4::Engine::get_clock());
      }
      for (long id : ids)
        end(id);
    } else {
      long id;
      auto a = make(script[i], id);
      begin(a, id, k[0]);
      end(id);
    }
  }
}

static int run_case(std::vector<std::string> args, const std::string& text)
{
  std::vector<char*> argv;
  for (auto& a : args)
    argv.push_back(a.data());
  argv.push_back(nullptr);
  int argc = (int)args.size();
  sg4::Engine e(&argc, argv.data());
  std::istringstream in(text);
  plat = read_platform(e, in);
  std::string name, host;
  std::vector<std::string> script;
  auto flush = [&]() {
    if (not name.empty())
      plat.hosts.at(host)->add_actor(name, actor, script);
    script.clear();
  };
  for (auto const& l : plat.rest) {
    if (l[0] == 'A') {
      flush();
      std::istringstream is(l);
      std::string k;
      is >> k >> name >> host;
    } else
      script.push_back(l);
  }
  flush();
  simgrid::verif::on_lmm_solved = on_solved;
  sg4::Engine::on_time_advance_cb(on_advance);
  e.run();
  printf("END %.17g\n", sg4::Engine::get_clock());
  return 0;
}

int main(int argc, char** argv)
{
  setvbuf(stdout, nullptr, _IOLBF, 0);
  public_only = getenv("C21_PUBLIC_ONLY") != nullptr;
  std::vector<std::string> base(argv, argv + argc);
  std::vector<std::string> lines;
  std::string line;
  while (std::getline(std::cin, line))
    if (not line.empty())
      lines.push_back(line);
  if (lines.empty() || lines[0].rfind("CASE", 0) != 0) { // single case, engine flags on the command line
    std::string text;
    for (auto const& l : lines)
      text += l + "\n";
    return run_case(base, text);
  }
  long budget = getenv("C21_CASE_BUDGET") ? atol(getenv("C21_CASE_BUDGET")) : 120;
  for (size_t i = 0; i < lines.size();) {
    std::istringstream is(lines[i++]);
    std::string k, tag, f;
    is >> k >> tag;
    std::vector<std::string> args = base;
    while (is >> f)
      args.push_back(f);
    std::string text;
    while (i < lines.size() && lines[i] != "ENDCASE")
      text += lines[i++] + "\n";
    i++;
    printf("CASE %s\n", tag.c_str());
    fflush(stdout);
    fflush(stderr);
    pid_t pid = fork();
    if (pid < 0) {
      perror("fork");
      return 3;
    }
    if (pid == 0) {
      alarm((unsigned)budget); // watchdog of one case: the parent reports signal 14, which the checker counts as inconclusive
      int rc = run_case(args, text);
      fflush(stdout);
      exit(rc);
    }
    int st = 0;
    waitpid(pid, &st, 0);
    printf("DONE %s %d %d\n", tag.c_str(), WIFEXITED(st) ? WEXITSTATUS(st) : -1, WIFSIGNALED(st) ? WTERMSIG(st) : 0);
    fflush(stdout);
  }
  return 0;
}
