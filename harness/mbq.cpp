// E1-style harness for C08 (mailboxes) and C09 (message queues): every actor executes a script of S4U communication calls
// and the harness records what happens at the actor boundary:
//   "C <actor> <opidx> <op> key=val ..."   just before the call (the order of the C lines is the order in which the kernel
//                                          handles the requests: SimGrid's maestro answers simcalls in actor run order)
//   "R <actor> <opidx> <op> key=val ..."   after the call returned (or threw)
// Every payload is a heap Msg carrying (sender, seq, mailbox, simulated size, checksum); the receiver looks the received pointer
// up in the registry of every payload ever sent, so that a wrong/garbled/unknown pointer is reported and never dereferenced.
// Buffer communications (Comm::set_src_data(buf,n) / set_dst_data(buf,cap) + per-comm copy callback) are byte-compared against
// the sender's bytes, with guard zones around the destination.
// After a successful asynchronous reception the receiver scribbles over its slot / buffer; the scribble is verified when the
// simulation is over (a late second copy of the payload would destroy it).
//
// stdin (one process may run a batch of scenarios = "groups", one after the other in simulated time):
//   P <nhosts> <bw>,<lat> [<bw>,<lat> ...]          platform (once): full zone, route(i,j) over link (3i+7j)%L (+ a 2nd one when (i+j)%3==0)
//   N                                                starts the next group (optional before the first one)
//   M <P|B> ...                                      one letter per mailbox of the group: P = pointer payloads, B = buffer copies
//   Q <n>                                            number of message queues of the group
//   A <op> <op> ...                                  one line per actor of the group
// Group k has its own mailboxes / queues / actors; its actors start at date k*GAP and everything a group can do (transfers,
// the "never firing" API timeouts of 1e6 s) is over long before (k+1)*GAP, so that the groups do not interact.
// Every output line is prefixed with "@<group> ".
// see lib/verif/gen/mbq.py for the list of ops.
#include <simgrid/s4u.hpp>
#include <simgrid/s4u/MessageQueue.hpp>
#include <simgrid/s4u/Mess.hpp>
#include <simgrid/s4u/ActivitySet.hpp>
#include <simgrid/Exception.hpp>
#include "src/kernel/activity/CommImpl.hpp"

#include <cinttypes>
#include <cstdio>
#include <cstring>
#include <iostream>
#include <map>
#include <sstream>
#include <string>
#include <unordered_map>
#include <vector>

namespace sg4 = simgrid::s4u;
using simgrid::kernel::activity::CommImpl;

constexpr double GAP = 1e7;
struct Msg {
  uint32_t magic;
  int group;
  int sender;
  int seq;
  int mbox;
  uint64_t size;
  uint64_t ck;
};
static uint64_t msg_ck(const Msg& m)
{
  uint64_t x = 0x9E3779B97F4A7C15ULL ^ m.magic;
  x = (x ^ (uint64_t)(uint32_t)m.group) * 0x100000001B3ULL;
  x = (x ^ (uint64_t)(uint32_t)m.sender) * 0x100000001B3ULL;
  x = (x ^ (uint64_t)(uint32_t)m.seq) * 0x100000001B3ULL;
  x = (x ^ (uint64_t)(uint32_t)m.mbox) * 0x100000001B3ULL;
  x = (x ^ m.size) * 0x100000001B3ULL;
  return x;
}
struct BufRec {
  int group;
  int sender;
  int seq;
  size_t n;
  unsigned char* bytes;
  int copies = 0;
};
static std::unordered_map<const void*, Msg*> g_msgs;      // every pointer payload ever sent (never freed before the end)
static std::unordered_map<const void*, BufRec> g_bufs;    // every source buffer ever sent
static int g_next_handle = 0;
static Msg* const SCRIBBLE = reinterpret_cast<Msg*>(0x5C41B0);
constexpr size_t GUARD     = 16;

struct MatchData {
  int actor;
  int tag;
  int fk;   // 0 none, 1 peer has data and peer.tag == want, 2 peer has data and peer.actor%2 == want, 3 peer has no data or peer.tag == want
  int want;
};
static bool match_fun(void* mine, void* other, CommImpl*)
{
  const auto* me   = static_cast<MatchData*>(mine);
  const auto* peer = static_cast<MatchData*>(other);
  switch (me->fk) {
    case 1:
      return peer != nullptr && peer->tag == me->want;
    case 2:
      return peer != nullptr && (peer->actor % 2) == me->want;
    case 3:
      return peer == nullptr || peer->tag == me->want;
    default:
      return true;
  }
}

static void copy_cb(CommImpl* comm, void* buff, size_t n)
{
  auto it = g_bufs.find(buff);
  if (it != g_bufs.end()) {
    it->second.copies++;
    printf("@%d COPY mid=%d.%d n=%zu k=%d\n", it->second.group, it->second.sender, it->second.seq, n, it->second.copies);
  } else
    printf("@-1 COPY mid=? n=%zu\n", n);
  if (comm->dst_buff_ != nullptr)
    memcpy(comm->dst_buff_, buff, n);
}

static std::string describe_ptr(const void* p, int g)
{
  char b[160];
  if (p == nullptr)
    return "got=NULL";
  if (p == SCRIBBLE)
    return "got=SCRIBBLE";
  auto it = g_msgs.find(p);
  if (it == g_msgs.end())
    return "got=BADPTR";
  const Msg* m = it->second;
  if (m->group != g)
    return "got=FOREIGN-GROUP";
  snprintf(b, sizeof b, "got=%d.%d mb=%d size=%" PRIu64 " ck=%d", m->sender, m->seq, m->mbox, m->size,
           (m->magic == 0xC0FFEEu && m->ck == msg_ck(*m)) ? 1 : 0);
  return b;
}

struct Handle {
  int h        = -1;
  char kind    = 0; // P put, G get with slot, g get without slot (get_payload), b buffer put, B buffer get, Q mess put, q mess get with slot, r mess get w/o slot
  sg4::CommPtr comm;
  sg4::MessPtr mess;
  Msg** slot         = nullptr;
  unsigned char* dst = nullptr; // start of the user zone (guards are before and after)
  size_t cap         = 0;
  sg4::Activity* act() const { return comm ? static_cast<sg4::Activity*>(comm.get()) : static_cast<sg4::Activity*>(mess.get()); }
};
struct Scrib {
  int g;
  int h;
  Msg** slot;
  unsigned char* dst;
  size_t cap;
};
static std::vector<Scrib> g_scribs;

static unsigned char* new_dst(size_t cap)
{
  auto* raw = static_cast<unsigned char*>(malloc(cap + 2 * GUARD));
  memset(raw, 0xA5, GUARD);
  memset(raw + GUARD, 0xEE, cap);
  memset(raw + GUARD + cap, 0xA5, GUARD);
  return raw + GUARD;
}
static bool all_eq(const unsigned char* p, size_t n, unsigned char v)
{
  for (size_t i = 0; i < n; i++)
    if (p[i] != v)
      return false;
  return true;
}
/* what a buffer reception delivered; rn = received size as reported by the API */
static std::string describe_buf(const unsigned char* dst, size_t cap, size_t rn, const void* payload_ptr, bool have_payload_ptr, int g)
{
  std::ostringstream o;
  o << "rn=" << rn << " cap=" << cap;
  const BufRec* rec = nullptr;
  if (have_payload_ptr && payload_ptr == nullptr) {
    o << " pmid=NULL";
  } else if (have_payload_ptr) {
    auto it = g_bufs.find(payload_ptr);
    if (it != g_bufs.end() && it->second.group == g) {
      rec = &it->second;
      o << " pmid=" << rec->sender << "." << rec->seq;
    } else
      o << " pmid=BADPTR";
  } else
    o << " pmid=-";
  size_t ok_rn = rn <= cap ? rn : cap;
  if (ok_rn >= 12) { // header readable
    int s, q, n;
    memcpy(&s, dst, 4);
    memcpy(&q, dst + 4, 4);
    memcpy(&n, dst + 8, 4);
    o << " got=" << s << "." << q << " n=" << n;
    if (rec == nullptr)
      for (auto const& [p, r] : g_bufs)
        if (r.group == g && r.sender == s && r.seq == q)
          rec = &r;
  } else
    o << " got=?";
  if (rec != nullptr)
    o << " bytes=" << ((ok_rn <= rec->n && memcmp(dst, rec->bytes, ok_rn) == 0) ? 1 : 0) << " srcn=" << rec->n;
  else
    o << " bytes=?";
  o << " tail=" << (all_eq(dst + ok_rn, cap - ok_rn, 0xEE) ? 1 : 0);
  o << " guard=" << ((all_eq(dst - GUARD, GUARD, 0xA5) && all_eq(dst + cap, GUARD, 0xA5)) ? 1 : 0);
  return o.str();
}

static std::vector<std::string> split(const std::string& s, char sep)
{
  std::vector<std::string> out;
  std::string cur;
  std::istringstream is(s);
  while (std::getline(is, cur, sep))
    out.push_back(cur);
  return out;
}

#define P(fmt, ...) printf("@%d " fmt, g, ##__VA_ARGS__)
struct Actor {
  int g;
  int a;
  std::vector<std::string> ops;
  std::vector<sg4::Mailbox*> mbs;
  std::vector<sg4::MessageQueue*> qs;
  std::vector<Handle> pend;
  int seq = 0;
  int i   = 0;

  Msg* new_msg(int mb, uint64_t size)
  {
    auto* m = new Msg{0xC0FFEEu, g, a, seq++, mb, size, 0};
    m->ck   = msg_ck(*m);
    g_msgs[m] = m;
    return m;
  }
  unsigned char* new_src(size_t n, int* sq)
  {
    auto* b = static_cast<unsigned char*>(malloc(n > 0 ? n : 1));
    *sq     = seq++;
    for (size_t k = 0; k < n; k++)
      b[k] = static_cast<unsigned char>((a * 131 + *sq * 31 + k * 7 + (k >> 8)) & 0xFF);
    if (n >= 12) {
      int nn = static_cast<int>(n);
      memcpy(b, &a, 4);
      memcpy(b + 4, sq, 4);
      memcpy(b + 8, &nn, 4);
    }
    g_bufs[b] = BufRec{g, a, *sq, n, b, 0};
    return b;
  }
  /* result of a finished reception handle (and scribble over the slot / buffer) */
  std::string harvest(Handle& hd)
  {
    std::string d;
    switch (hd.kind) {
      case 'G':
      case 'q':
        d        = describe_ptr(*hd.slot, g);
        *hd.slot = SCRIBBLE;
        g_scribs.push_back({g, hd.h, hd.slot, nullptr, 0});
        break;
      case 'g':
        d = describe_ptr(hd.comm->get_payload(), g);
        break;
      case 'r':
        d = describe_ptr(hd.mess->get_payload(), g);
        break;
      case 'B': {
        size_t rn = hd.comm->get_dst_data_size();
        bool have = hd.comm->get_impl() != nullptr;
        d         = describe_buf(hd.dst, hd.cap, rn, have ? hd.comm->get_payload() : nullptr, have, g);
        memset(hd.dst, 0x5C, hd.cap);
        g_scribs.push_back({g, hd.h, nullptr, hd.dst, hd.cap});
        break;
      }
      default:
        break;
    }
    return d;
  }
  void drop(int h)
  {
    for (size_t k = 0; k < pend.size(); k++)
      if (pend[k].h == h) {
        pend.erase(pend.begin() + k);
        return;
      }
  }
  /* keep: on timeout the handle stays pending and nothing is cancelled (plain Activity::wait_for) */
  void do_wait(Handle hd, double timeout, const char* opname, bool keep = false)
  {
    P("C %d %d %s h=%d t=%.9g\n", a, i, opname, hd.h, timeout);
    try {
      if (timeout < 0)
        hd.act()->wait();
      else
        hd.act()->wait_for(timeout);
      std::string d = harvest(hd);
      P("R %d %d %s h=%d st=ok %s\n", a, i, opname, hd.h, d.c_str());
      drop(hd.h);
    } catch (const simgrid::TimeoutException&) {
      P("R %d %d %s h=%d st=timeout\n", a, i, opname, hd.h);
      if (keep)
        return;
      // what wait_for_or_cancel() does, as two logged steps
      P("C %d %d cancel h=%d\n", a, i, hd.h);
      hd.act()->cancel();
      P("R %d %d cancel h=%d st=ok\n", a, i, hd.h);
      drop(hd.h);
    } catch (const simgrid::Exception& e) {
      P("R %d %d %s h=%d st=fail:%s\n", a, i, opname, hd.h, typeid(e).name());
      drop(hd.h);
    }
  }

  void run()
  {
    auto* self = sg4::Actor::self()->get_impl();
    for (i = 0; i < static_cast<int>(ops.size()); i++) {
      auto t               = split(ops[i], ':');
      const std::string op = t[0];
      auto num             = [&t](size_t k, double dflt = 0) { return t.size() > k ? std::stod(t[k]) : dflt; };
      try {
        if (op == "sleep") {
          sg4::this_actor::sleep_for(num(1) * 1e-6);
        } else if (op == "yield") {
          sg4::this_actor::yield();
        } else if (op == "setr") {
          int m = (int)num(1), v = (int)num(2);
          P("C %d %d setr m=%d v=%d\n", a, i, m, v);
          if (v)
            mbs[m]->set_receiver(sg4::Actor::self());
          else
            mbs[m]->set_receiver(nullptr);
          P("R %d %d setr m=%d st=ok\n", a, i, m);
        } else if (op == "put" || op == "putw" || op == "puta" || op == "putd" || op == "putf" || op == "putT") {
          int m         = (int)num(1);
          uint64_t size = (uint64_t)num(2);
          Msg* msg      = new_msg(m, size);
          int h         = g_next_handle++;
          if (op == "putf") {
            auto* md = new MatchData{a, (int)num(3), (int)num(4), (int)num(5)};
            P("C %d %d putf m=%d h=%d mid=%d.%d size=%" PRIu64 " tag=%d fk=%d want=%d\n", a, i, m, h, a, msg->seq, size, md->tag,
                   md->fk, md->want);
            try {
              if (md->fk != 0)
                sg4::Comm::send(self, mbs[m], (double)size, -1.0, msg, sizeof(void*), match_fun, nullptr, md, -1.0);
              else
                sg4::Comm::send(self, mbs[m], (double)size, -1.0, msg, sizeof(void*), nullptr, nullptr, md, -1.0);
              P("R %d %d putf h=%d st=ok\n", a, i, h);
            } catch (const simgrid::Exception& e) {
              P("R %d %d putf h=%d st=fail:%s\n", a, i, h, typeid(e).name());
            }
            continue;
          }
          double rate = num(3, -1);
          P("C %d %d %s m=%d h=%d mid=%d.%d size=%" PRIu64 " rate=%.9g\n", a, i, op.c_str(), m, h, a, msg->seq, size, rate);
          try {
            if (op == "put") {
              mbs[m]->put(msg, size);
            } else if (op == "putT") { // real API with a timeout that never fires
              mbs[m]->put(msg, size, 1e6);
            } else if (op == "putw") { // wait() on a comm that was not started: one blocking simcall
              auto c = mbs[m]->put_init(msg, size);
              if (rate > 0)
                c->set_rate(rate);
              c->wait();
            } else if (op == "puta") {
              auto c = mbs[m]->put_init(msg, size);
              if (rate > 0)
                c->set_rate(rate);
              c->start();
              Handle hd;
              hd.h    = h;
              hd.kind = 'P';
              hd.comm = c;
              pend.push_back(hd);
            } else { // putd
              mbs[m]->put_init(msg, size)->detach([](void* p) {
                auto it = g_msgs.find(p);
                if (it != g_msgs.end())
                  printf("@%d CLEAN mid=%d.%d\n", it->second->group, it->second->sender, it->second->seq);
                else
                  printf("@-1 CLEAN mid=?\n");
              });
            }
            P("R %d %d %s h=%d st=ok\n", a, i, op.c_str(), h);
          } catch (const simgrid::Exception& e) {
            P("R %d %d %s h=%d st=fail:%s now=%.17g\n", a, i, op.c_str(), h, typeid(e).name(), sg4::Engine::get_clock());
          }
        } else if (op == "get" || op == "getT" || op == "getw" || op == "geta" || op == "getp" || op == "getf") {
          int m = (int)num(1);
          int h = g_next_handle++;
          if (op == "getf") {
            auto* md = new MatchData{a, (int)num(2), (int)num(3), (int)num(4)};
            P("C %d %d getf m=%d h=%d tag=%d fk=%d want=%d\n", a, i, m, h, md->tag, md->fk, md->want);
            Msg* res  = nullptr;
            size_t sz = sizeof(void*);
            try {
              if (md->fk != 0)
                sg4::Comm::recv(self, mbs[m], &res, &sz, match_fun, nullptr, md, -1.0, -1.0);
              else
                sg4::Comm::recv(self, mbs[m], &res, &sz, nullptr, nullptr, md, -1.0, -1.0);
              P("R %d %d getf h=%d st=ok %s rsz=%zu\n", a, i, h, describe_ptr(res, g).c_str(), sz);
            } catch (const simgrid::Exception& e) {
              P("R %d %d getf h=%d st=fail:%s\n", a, i, h, typeid(e).name());
            }
            continue;
          }
          P("C %d %d %s m=%d h=%d\n", a, i, op.c_str(), m, h);
          try {
            if (op == "get") {
              Msg* p = mbs[m]->get<Msg>();
              P("R %d %d get h=%d st=ok %s\n", a, i, h, describe_ptr(p, g).c_str());
            } else if (op == "getT") {
              Msg* p = mbs[m]->get<Msg>(1e6);
              P("R %d %d getT h=%d st=ok %s\n", a, i, h, describe_ptr(p, g).c_str());
            } else if (op == "getw") {
              auto** slot = new Msg*(nullptr);
              auto c      = mbs[m]->get_init()->set_dst_data(reinterpret_cast<void**>(slot), sizeof(void*));
              c->wait();
              P("R %d %d getw h=%d st=ok %s rsz=%zu\n", a, i, h, describe_ptr(*slot, g).c_str(), c->get_dst_data_size());
              *slot = SCRIBBLE;
              g_scribs.push_back({g, h, slot, nullptr, 0});
            } else {
              Handle hd;
              hd.h = h;
              if (op == "geta") {
                hd.kind = 'G';
                hd.slot = new Msg*(nullptr);
                hd.comm = mbs[m]->get_async<Msg>(hd.slot);
              } else {
                hd.kind = 'g';
                hd.comm = mbs[m]->get_async();
              }
              pend.push_back(hd);
              P("R %d %d %s h=%d st=ok\n", a, i, op.c_str(), h);
            }
          } catch (const simgrid::Exception& e) {
            P("R %d %d %s h=%d st=fail:%s now=%.17g\n", a, i, op.c_str(), h, typeid(e).name(), sg4::Engine::get_clock());
          }
        } else if (op == "bput" || op == "bputs" || op == "bputa" || op == "bputd") {
          int m        = (int)num(1);
          size_t n     = (size_t)num(2);
          uint64_t sim = (uint64_t)num(3);
          int sq;
          unsigned char* src = new_src(n, &sq);
          int h              = g_next_handle++;
          P("C %d %d %s m=%d h=%d mid=%d.%d n=%zu size=%" PRIu64 "\n", a, i, op.c_str(), m, h, a, sq, n, sim);
          try {
            auto c = mbs[m]->put_init()->set_payload_size(sim)->set_src_data(src, n)->set_copy_data_callback(copy_cb);
            if (op == "bput")
              c->wait();
            else if (op == "bputs")
              c->start()->wait();
            else if (op == "bputd")
              c->detach();
            else {
              c->start();
              Handle hd;
              hd.h    = h;
              hd.kind = 'b';
              hd.comm = c;
              pend.push_back(hd);
            }
            P("R %d %d %s h=%d st=ok\n", a, i, op.c_str(), h);
          } catch (const simgrid::Exception& e) {
            P("R %d %d %s h=%d st=fail:%s\n", a, i, op.c_str(), h, typeid(e).name());
          }
        } else if (op == "bget" || op == "bgets" || op == "bgeta") {
          int m      = (int)num(1);
          size_t cap = (size_t)num(2);
          int h      = g_next_handle++;
          P("C %d %d %s m=%d h=%d cap=%zu\n", a, i, op.c_str(), m, h, cap);
          try {
            Handle hd;
            hd.h    = h;
            hd.kind = 'B';
            hd.dst  = new_dst(cap);
            hd.cap  = cap;
            hd.comm = mbs[m]->get_init()->set_dst_data(reinterpret_cast<void**>(hd.dst), cap)->set_copy_data_callback(copy_cb);
            if (op == "bgeta") {
              hd.comm->start();
              pend.push_back(hd);
              P("R %d %d bgeta h=%d st=ok\n", a, i, h);
            } else {
              if (op == "bgets")
                hd.comm->start();
              hd.comm->wait();
              std::string d = harvest(hd);
              P("R %d %d %s h=%d st=ok %s\n", a, i, op.c_str(), h, d.c_str());
            }
          } catch (const simgrid::Exception& e) {
            P("R %d %d %s h=%d st=fail:%s\n", a, i, op.c_str(), h, typeid(e).name());
          }
        } else if (op == "qput" || op == "qputt" || op == "qputa" || op == "qputd") {
          int q    = (int)num(1);
          Msg* msg = new_msg(q, 0);
          int h    = g_next_handle++;
          double to = num(2, -1);
          P("C %d %d %s m=%d h=%d mid=%d.%d t=%.9g\n", a, i, op.c_str(), q, h, a, msg->seq, to < 0 ? -1 : to * 1e-6);
          try {
            if (op == "qput")
              qs[q]->put(msg);
            else if (op == "qputt")
              qs[q]->put(msg, to * 1e-6);
            else if (op == "qputd")
              qs[q]->put_init(msg)->detach();
            else {
              Handle hd;
              hd.h    = h;
              hd.kind = 'Q';
              hd.mess = qs[q]->put_async(msg);
              pend.push_back(hd);
            }
            P("R %d %d %s h=%d st=ok\n", a, i, op.c_str(), h);
          } catch (const simgrid::TimeoutException&) {
            P("R %d %d %s h=%d st=timeout\n", a, i, op.c_str(), h);
          } catch (const simgrid::Exception& e) {
            P("R %d %d %s h=%d st=fail:%s\n", a, i, op.c_str(), h, typeid(e).name());
          }
        } else if (op == "qget" || op == "qgett" || op == "qgeta" || op == "qgetp" || op == "qgetw" || op == "qgets" || op == "qgetts") {
          int q     = (int)num(1);
          int h     = g_next_handle++;
          double to = num(2, -1);
          P("C %d %d %s m=%d h=%d t=%.9g\n", a, i, op.c_str(), q, h, to < 0 ? -1 : to * 1e-6);
          try {
            if (op == "qget") {
              Msg* p = qs[q]->get<Msg>();
              P("R %d %d qget h=%d st=ok %s\n", a, i, h, describe_ptr(p, g).c_str());
            } else if (op == "qgett") {
              Msg* p = qs[q]->get<Msg>(to * 1e-6);
              P("R %d %d qgett h=%d st=ok %s\n", a, i, h, describe_ptr(p, g).c_str());
            } else if (op == "qgets" || op == "qgetts") {
              // the body of MessageQueue::get<T>() / get<T>(timeout) with the result slot on the heap instead of the caller's stack,
              // so that a late or repeated delivery is observed (scribble check) instead of corrupting a dead stack frame
              auto** slot = new Msg*(nullptr);
              bool timedout = false;
              try {
                if (op == "qgets")
                  qs[q]->get_async<Msg>(slot)->wait();
                else
                  qs[q]->get_async<Msg>(slot)->wait_for(to * 1e-6);
              } catch (const simgrid::TimeoutException&) {
                timedout = true;
              }
              g_scribs.push_back({g, h, slot, nullptr, 0}); // the call returned: the slot is scribbled below and watched until the end
              if (timedout) {
                // a payload written into it later on shows a get that was over and still consumed a put
                if (*slot != nullptr)
                  P("R %d %d %s h=%d st=timeout-but-%s\n", a, i, op.c_str(), h, describe_ptr(*slot, g).c_str());
                else
                  P("R %d %d %s h=%d st=timeout\n", a, i, op.c_str(), h);
                *slot = SCRIBBLE;
              } else {
                P("R %d %d %s h=%d st=ok %s\n", a, i, op.c_str(), h, describe_ptr(*slot, g).c_str());
                *slot = SCRIBBLE;
              }
            } else if (op == "qgetw") { // wait() on a get that was not started
              auto** slot = new Msg*(nullptr);
              auto c      = qs[q]->get_init()->set_dst_data(reinterpret_cast<void**>(slot), sizeof(void*));
              c->wait();
              P("R %d %d qgetw h=%d st=ok %s\n", a, i, h, describe_ptr(*slot, g).c_str());
            } else {
              Handle hd;
              hd.h = h;
              if (op == "qgeta") {
                hd.kind = 'q';
                hd.slot = new Msg*(nullptr);
                hd.mess = qs[q]->get_async<Msg>(hd.slot);
              } else {
                hd.kind = 'r';
                hd.mess = qs[q]->get_async();
              }
              pend.push_back(hd);
              P("R %d %d %s h=%d st=ok\n", a, i, op.c_str(), h);
            }
          } catch (const simgrid::TimeoutException&) {
            P("R %d %d %s h=%d st=timeout\n", a, i, op.c_str(), h);
          } catch (const simgrid::Exception& e) {
            P("R %d %d %s h=%d st=fail:%s\n", a, i, op.c_str(), h, typeid(e).name());
          }
        } else if (op == "wait") {
          if (pend.empty())
            continue;
          Handle hd = pend[(size_t)num(1) % pend.size()];
          double to = num(2, -1);
          do_wait(hd, to < 0 ? -1 : to * 1e-6, "wait");
        } else if (op == "waitk") { // Mess handles only: wait_for() whose timeout leaves the handle usable
          if (pend.empty())
            continue;
          Handle hd = pend[(size_t)num(1) % pend.size()];
          do_wait(hd, num(2) * 1e-6, "waitk", hd.mess != nullptr);
        } else if (op == "test") {
          if (pend.empty())
            continue;
          Handle hd = pend[(size_t)num(1) % pend.size()];
          P("C %d %d test h=%d\n", a, i, hd.h);
          bool done = hd.act()->test();
          if (done) {
            std::string d = harvest(hd);
            P("R %d %d test h=%d st=1 %s\n", a, i, hd.h, d.c_str());
            drop(hd.h);
          } else
            P("R %d %d test h=%d st=0\n", a, i, hd.h);
        } else if (op == "cancel") {
          if (pend.empty())
            continue;
          Handle hd = pend[(size_t)num(1) % pend.size()];
          P("C %d %d cancel h=%d\n", a, i, hd.h);
          hd.act()->cancel();
          P("R %d %d cancel h=%d st=ok\n", a, i, hd.h);
          drop(hd.h);
        } else if (op == "wany") {
          if (pend.empty())
            continue;
          double to = num(1, -1);
          sg4::ActivitySet set;
          std::string hs;
          for (auto const& hd : pend) {
            set.push(sg4::ActivityPtr(hd.act()));
            hs += (hs.empty() ? "" : ",") + std::to_string(hd.h);
          }
          P("C %d %d wany hs=%s t=%.9g\n", a, i, hs.c_str(), to < 0 ? -1 : to * 1e-6);
          try {
            auto ret = set.wait_any_for(to < 0 ? -1 : to * 1e-6);
            for (auto hd : pend)
              if (hd.act() == ret.get()) {
                std::string d = harvest(hd);
                P("R %d %d wany h=%d st=ok %s\n", a, i, hd.h, d.c_str());
                drop(hd.h);
                break;
              }
          } catch (const simgrid::TimeoutException&) {
            P("R %d %d wany h=-1 st=timeout\n", a, i);
          } catch (const simgrid::Exception& e) {
            std::string fs;
            while (auto f = set.get_failed_activity()) {
              for (auto const& hd : pend)
                if (hd.act() == f.get()) {
                  fs += (fs.empty() ? "" : ",") + std::to_string(hd.h);
                  drop(hd.h);
                  break;
                }
            }
            P("R %d %d wany h=-1 st=fail:%s failed=%s\n", a, i, typeid(e).name(), fs.c_str());
          }
        } else {
          fprintf(stderr, "unknown op %s\n", op.c_str());
          abort();
        }
      } catch (const simgrid::Exception& e) { // nothing should arrive here: every call has its own handler
        P("X %d %d %s exc=%s\n", a, i, op.c_str(), typeid(e).name());
      }
    }
    // epilogue: complete what is still pending (no handle is dropped while its communication is in flight)
    while (not pend.empty()) {
      Handle hd = pend.front();
      do_wait(hd, -1, "wait");
      i++;
    }
    P("D %d\n", a);
  }
};

int main(int argc, char** argv)
{
  sg4::Engine e(&argc, argv);
  setvbuf(stdout, nullptr, _IOLBF, 0);
  std::string line;
  struct Group {
    std::string mbmodes;
    int nq = 0;
    std::vector<std::vector<std::string>> scripts;
  };
  std::vector<Group> groups(1);
  int nh = 2;
  std::vector<std::pair<double, double>> links;
  while (std::getline(std::cin, line)) {
    std::istringstream is(line);
    std::string k, t;
    if (not(is >> k))
      continue;
    if (k == "P") {
      is >> nh;
      while (is >> t) {
        auto p = split(t, ',');
        links.emplace_back(std::stod(p[0]), std::stod(p[1]));
      }
    } else if (k == "N") {
      if (not groups.back().scripts.empty())
        groups.emplace_back();
    } else if (k == "M") {
      while (is >> t)
        groups.back().mbmodes += t;
    } else if (k == "Q") {
      is >> groups.back().nq;
    } else if (k == "A") {
      std::vector<std::string> ops;
      while (is >> t)
        ops.push_back(t);
      groups.back().scripts.push_back(ops);
    }
  }
  auto* z = e.get_netzone_root()->add_netzone_full("z");
  std::vector<sg4::Host*> hosts;
  for (int i = 0; i < nh; i++)
    hosts.push_back(z->add_host("h" + std::to_string(i), 1e9));
  std::vector<sg4::Link*> ls;
  for (size_t l = 0; l < links.size(); l++)
    ls.push_back(z->add_link("l" + std::to_string(l), links[l].first)->set_latency(links[l].second));
  for (int i = 0; i < nh; i++) { // same-host communications use the zone's default loopback
    for (int j = i + 1; j < nh; j++) {
      std::vector<const sg4::Link*> r{ls[(3 * i + 7 * j) % ls.size()]};
      if ((i + j) % 3 == 0 && ls.size() > 1) {
        auto* l2 = ls[(5 * i + j + 1) % ls.size()];
        if (l2 != r[0])
          r.push_back(l2);
      }
      z->add_route(hosts[i], hosts[j], r);
    }
  }
  z->seal();
  for (size_t g = 0; g < groups.size(); g++) {
    const auto& grp = groups[g];
    std::string pre = "g" + std::to_string(g);
    std::vector<sg4::Mailbox*> mbs;
    for (size_t m = 0; m < grp.mbmodes.size(); m++)
      mbs.push_back(sg4::Mailbox::by_name(pre + "mb" + std::to_string(m)));
    std::vector<sg4::MessageQueue*> qs;
    for (int q = 0; q < grp.nq; q++)
      qs.push_back(sg4::MessageQueue::by_name(pre + "q" + std::to_string(q)));
    for (size_t a = 0; a < grp.scripts.size(); a++) {
      auto* act = new Actor{(int)g, (int)a, grp.scripts[a], mbs, qs, {}, 0, 0};
      hosts[a % hosts.size()]->add_actor(pre + "a" + std::to_string(a), [act]() {
        if (act->g > 0)
          sg4::this_actor::sleep_until(act->g * GAP);
        printf("@%d B %d\n", act->g, act->a);
        act->run();
      });
    }
  }
  e.run();
  for (auto const& s : g_scribs) {
    bool ok = s.slot ? (*s.slot == SCRIBBLE)
                     : (all_eq(s.dst, s.cap, 0x5C) && all_eq(s.dst - GUARD, GUARD, 0xA5) && all_eq(s.dst + s.cap, GUARD, 0xA5));
    printf("@%d S h=%d st=%s\n", s.g, s.h, ok ? "ok" : "bad");
  }
  printf("@-1 END %.9g\n", sg4::Engine::get_clock());
  fflush(stdout);
  // payloads, slots and buffers are deliberately never freed: comms that are still queued when the engine is destroyed
  // (at exit) may still reference them
  return 0;
}
