// C41/C14 harness (private copy of harness/mc_vm.cpp, which is shared with the C38/C40 checks and frozen; the spec language and
// the fingerprints are the same).  Interpreter ("VM") of small synchronisation programs written in the line-oriented spec
// produced by lib/verif/gen/mcprog_cex.py.  Additions with respect to mc_vm.cpp (all of them only act on *native* runs and are
// neutral for the untimed reference semantics, i.e. legal scheduling perturbations):
//   VERIF_VM_JITTER=<seed>   hidden sleep of {0,1,2,3} ms (hash of seed, actor, pc) before every op: moves the actors relatively
//                            to each other and produces many same-date ties
//   VERIF_VM_ORDER=2,0,1     start order of the initial actors (changes the pids, hence every pid-ordered tie-break)
//   VERIF_VM_HOSTS=<n>       n hosts of different speeds, one link per pair with different latencies (actor i runs on host i%n)
//   a native run prints "RELOCK <actor> <mutex>" just before an actor locks a mutex it already holds
// and the process leaves with _exit() once the result line is printed (the global S4U objects of a deadlocked program
// cannot be destroyed cleanly).  The same binary runs
//   * natively                     (every S4U call is one simcall; prints FINAL / DEADLOCK / ASSERT lines on stdout),
//   * under simgrid-mc             (terminal states are logged from the SIMGRID_VERIF hooks to the file $VERIF_MC_FP,
//                                   one write(2) per record: "T <kind> <trace> | <fingerprint>"),
//   * under --cfg=model-check/replay:<path>  (prints REPLAY <fingerprint> after Engine::run() returned).
//
// usage: mc_vm <spec-file> [simgrid options]
//
// Spec:   mutex <n> | sem <init>[b] ... | cond <n> | barrier <count> ... | mbox <n> | actor <op>... | dyn <op>...
// Actors are numbered in file order (actor lines first are started by main, dyn lines are started by a K op).
// Ops (all observations are functions of the Mazurkiewicz trace: counters are only touched while their object is held):
//   L<m> lock          U<m> unlock (skipped unless held)     T<m> try_lock (obs t<m>=0|1)
//   O<m> read+increment the counter of mutex m (skipped unless m is held; obs o<m>=v)
//   P<s> acquire       V<s> release (binary "b" semaphores: skipped unless held)   o<s> counter of binary semaphore s
//   W<c>.<m> cond wait (skipped unless m held)   w<c>.<m> timed cond wait (obs w<c>=1 on timeout)   N<c> notify_one   A<c> notify_all
//   R<b> barrier wait  S<x>.<v> put v on mailbox x   G<x> get (obs g<x>=v)
//   J<a> join actor a (skipped unless created)   K<d> create dyn actor d   Q<lo>.<hi> MC_random (obs q=v)
//   I<n> skip the next n ops if the last observed value is 0     E<v> MC_assert(last != v)     Y sleep     X exit
// When an actor ends it releases the mutexes and binary semaphores it still holds (in increasing id order).
#include <simgrid/modelchecker.h>
#include <simgrid/s4u.hpp>

#include "src/kernel/EngineImpl.hpp"
#include "src/kernel/actor/ActorImpl.hpp"
#include "src/kernel/actor/SimcallObserver.hpp"
#include "src/mc/mc_replay.hpp"
#include "src/verif_hooks.hpp"

#include <algorithm>
#include <cstdio>
#include <cstdlib>
#include <cstring>
#include <fcntl.h>
#include <fstream>
#include <set>
#include <sstream>
#include <unistd.h>
#include <vector>

namespace sg4 = simgrid::s4u;

struct Op {
  char k;
  int a = 0, b = 0;
};
struct ActorSpec {
  bool dyn = false;
  std::vector<Op> ops;
};
struct AState {
  int pc       = 0;
  bool created = false;
  bool done    = false;
  long pid     = -1;
  std::string obs;
  sg4::ActorPtr ref;
};

static std::vector<ActorSpec> spec;
static std::vector<AState> st;
static std::vector<sg4::MutexPtr> mutexes;
static std::vector<sg4::SemaphorePtr> sems;
static std::vector<bool> sem_binary;
static std::vector<sg4::ConditionVariablePtr> conds;
static std::vector<sg4::BarrierPtr> barriers;
static std::vector<sg4::Mailbox*> mboxes;
static std::vector<long> mcnt, scnt;
static std::vector<sg4::Host*> hosts;
static std::string trace;  // "pid/times;..." of the transitions executed so far in this process (inherited by forks)
static int fp_fd         = -1;
static long n_quiescent  = 0;
static bool under_mc     = false;
static bool under_replay = false;
static bool jitter       = false;
static unsigned long jitter_seed = 0;

static unsigned jitter_of(int me, int pc)
{
  unsigned long x = jitter_seed * 0x9E3779B97F4A7C15UL + (unsigned long)(me + 1) * 0xBF58476D1CE4E5B9UL +
                    (unsigned long)(pc + 1) * 0x94D049BB133111EBUL;
  x ^= x >> 31;
  x *= 0xD6E8FEB86659FD93UL;
  x ^= x >> 29;
  return (unsigned)(x & 3);
}

// failing >= 0: fingerprint at the instant actor `failing` fails an assertion in its local code: only its own position is
// meaningful then (the others may not have run their local step of this round yet), so theirs is reduced to "B".
static std::string fingerprint(bool with_observer, int failing = -1)
{
  std::string s;
  for (size_t i = 0; i < st.size(); i++) {
    const AState& S = st[i];
    if (i)
      s += "|";
    s += std::to_string(i) + ":";
    if (not S.created)
      s += "N";
    else if (S.done)
      s += "D";
    else {
      s += "B";
      if (failing < 0 || failing == (int)i)
        s += std::to_string(S.pc);
      if (failing < 0 && with_observer && S.ref) {
        auto* impl = S.ref->get_impl();
        if (impl->simcall_.observer_ != nullptr) {
          std::string o = impl->simcall_.observer_->to_string();
          s += "@" + o.substr(0, o.find('('));
        } else
          s += "@-";
      }
    }
    s += ":" + S.obs;
  }
  return s;
}

static void emit(const char* kind, int failing = -1)
{
  std::string r =
      std::string("T ") + kind + " " + (trace.empty() ? "-" : trace) + " | " + fingerprint(true, failing) + "\n";
  if (fp_fd >= 0) {
    if (write(fp_fd, r.c_str(), r.size()) < 0)
      perror("write VERIF_MC_FP");
  }
}

static void hook_executed(simgrid::kernel::actor::ActorImpl* actor, int times)
{
  trace += std::to_string(actor->get_pid());
  if (times > 0)
    trace += "/" + std::to_string(times);
  trace += ";";
}

static void hook_quiescent()
{
  n_quiescent++;
  auto const& list = simgrid::kernel::EngineImpl::get_instance()->get_actor_list();
  bool any         = false;
  // same evaluation (all actors, in pid order) as the one AppSide does right after this hook to answer the checker
  for (auto const& [pid, actor] : list) {
    auto* o = actor->simcall_.observer_;
    bool en = o != nullptr ? o->is_enabled() : actor->simcall_.call_ != simgrid::kernel::actor::Simcall::Type::NONE;
    any     = any || en;
  }
  if (any)
    return;
  emit(list.empty() ? "END" : "DEADLOCK");
}

static void body(int me);

static void start_actor(int idx)
{
  AState& S = st[idx];
  auto a    = hosts[idx % hosts.size()]->add_actor("a" + std::to_string(idx), [idx]() { body(idx); });
  S.ref     = a;
  S.pid     = a->get_pid();
  S.created = true;
}

static void body(int me)
{
  AState& S = st[me];
  std::set<int> heldm, helds;
  long last       = 0;
  auto const& ops = spec[me].ops;
  auto obs        = [&S, &last](const std::string& name, long v) {
    S.obs += name + "=" + std::to_string(v) + ",";
    last = v;
  };
  auto epilogue = [&]() {
    S.pc = (int)ops.size();
    for (int m : heldm)
      mutexes[m]->unlock();
    heldm.clear();
    for (int s : helds)
      sems[s]->release();
    helds.clear();
  };
  for (S.pc = 0; S.pc < (int)ops.size(); S.pc++) {
    const Op& o = ops[S.pc];
    if (jitter) {
      if (unsigned d = jitter_of(me, S.pc); d > 0)
        sg4::this_actor::sleep_for(0.001 * d);
    }
    switch (o.k) {
      case 'L':
        if (heldm.count(o.a) && not under_mc && not under_replay) {
          // the owner locks its (non-recursive) mutex again: documented as a self-deadlock. Tell the oracle that this run
          // went through that call (C14 gives the runs that come back from it their own key).
          printf("RELOCK %d %d\n", me, o.a);
          fflush(stdout);
        }
        mutexes[o.a]->lock();
        heldm.insert(o.a);
        break;
      case 'U':
        if (heldm.count(o.a)) {
          heldm.erase(o.a); // before the call: the unlock transition is always enabled and cannot fail
          mutexes[o.a]->unlock();
        }
        break;
      case 'T': {
        bool ok = mutexes[o.a]->try_lock();
        if (ok)
          heldm.insert(o.a);
        obs("t" + std::to_string(o.a), ok);
        break;
      }
      case 'O':
        if (heldm.count(o.a))
          obs("o" + std::to_string(o.a), mcnt[o.a]++);
        break;
      case 'P':
        sems[o.a]->acquire();
        if (sem_binary[o.a])
          helds.insert(o.a);
        break;
      case 'V':
        if (not sem_binary[o.a])
          sems[o.a]->release();
        else if (helds.count(o.a)) {
          helds.erase(o.a);
          sems[o.a]->release();
        }
        break;
      case 'o':
        if (sem_binary[o.a] && helds.count(o.a))
          obs("s" + std::to_string(o.a), scnt[o.a]++);
        break;
      case 'W':
        if (heldm.count(o.b))
          conds[o.a]->wait(mutexes[o.b]);
        break;
      case 'w':
        if (heldm.count(o.b)) {
          auto r = conds[o.a]->wait_for(mutexes[o.b], 1.0);
          obs("w" + std::to_string(o.a), r == std::cv_status::timeout);
        }
        break;
      case 'N':
        conds[o.a]->notify_one();
        break;
      case 'A':
        conds[o.a]->notify_all();
        break;
      case 'R':
        barriers[o.a]->wait();
        break;
      case 'S':
        mboxes[o.a]->put(new long(o.b), 100);
        break;
      case 'G': {
        long* p = mboxes[o.a]->get<long>();
        obs("g" + std::to_string(o.a), *p);
        delete p;
        break;
      }
      case 'J':
        if (st[o.a].created && o.a != me)
          st[o.a].ref->join();
        break;
      case 'K':
        if (not st[o.a].created) {
          // the creation is one visible transition (ACTOR_CREATE); the bookkeeping below runs in the same local step
          start_actor(o.a);
        }
        break;
      case 'Q':
        obs("q", MC_random(o.a, o.b));
        break;
      case 'I':
        if (last == 0)
          S.pc += o.a;
        break;
      case 'E':
        if (last == o.a) {
          if (under_mc)
            emit("ASSERT", me);
          else {
            printf("ASSERT %s\n", fingerprint(false, me).c_str());
            fflush(stdout);
          }
        }
        MC_assert(last != o.a);
        break;
      case 'Y':
        sg4::this_actor::sleep_for(0.001);
        break;
      case 'X':
        epilogue();
        S.done = true;
        sg4::this_actor::exit();
        break;
      default:
        fprintf(stderr, "mc_vm: unknown op %c\n", o.k);
        abort();
    }
  }
  epilogue();
  S.done = true;
}

static bool parse(const char* path)
{
  std::ifstream f(path);
  if (not f)
    return false;
  std::string line;
  while (std::getline(f, line)) {
    std::istringstream is(line);
    std::string w;
    if (not(is >> w) || w[0] == '#')
      continue;
    if (w == "mutex") {
      int n;
      is >> n;
      for (int i = 0; i < n; i++)
        mutexes.push_back(sg4::Mutex::create());
      mcnt.assign(n, 0);
    } else if (w == "sem") {
      std::string t;
      while (is >> t) {
        bool b = t.back() == 'b';
        if (b)
          t.pop_back();
        sems.push_back(sg4::Semaphore::create(std::stoi(t)));
        sem_binary.push_back(b);
      }
      scnt.assign(sems.size(), 0);
    } else if (w == "cond") {
      int n;
      is >> n;
      for (int i = 0; i < n; i++)
        conds.push_back(sg4::ConditionVariable::create());
    } else if (w == "barrier") {
      int c;
      while (is >> c)
        barriers.push_back(sg4::Barrier::create(c));
    } else if (w == "mbox") {
      int n;
      is >> n;
      for (int i = 0; i < n; i++)
        mboxes.push_back(sg4::Mailbox::by_name("x" + std::to_string(i)));
    } else if (w == "actor" || w == "dyn") {
      ActorSpec a;
      a.dyn = w == "dyn";
      std::string t;
      while (is >> t) {
        Op o;
        o.k = t[0];
        if (t.size() > 1) {
          auto dot = t.find('.');
          o.a      = std::stoi(t.substr(1, dot == std::string::npos ? std::string::npos : dot - 1));
          if (dot != std::string::npos)
            o.b = std::stoi(t.substr(dot + 1));
        }
        a.ops.push_back(o);
      }
      spec.push_back(a);
    } else {
      fprintf(stderr, "mc_vm: unknown spec line: %s\n", line.c_str());
      return false;
    }
  }
  return true;
}

int main(int argc, char** argv)
{
  sg4::Engine e(&argc, argv);
  setvbuf(stdout, nullptr, _IOLBF, 0);
  if (argc < 2) {
    fprintf(stderr, "usage: mc_vm spec [platform.xml]\n");
    return 2;
  }
  if (argc >= 3)
    e.load_platform(argv[2]);
  else {
    auto* z    = e.get_netzone_root()->add_netzone_full("z");
    int nhosts = 1;
    if (const char* p = getenv("VERIF_VM_HOSTS"); p != nullptr)
      nhosts = std::max(1, atoi(p));
    std::vector<sg4::Host*> hs;
    for (int i = 0; i < nhosts; i++)
      hs.push_back(z->add_host(i == 0 ? "h" : "h" + std::to_string(i), 1e9 * (i + 1)));
    for (int i = 0; i < nhosts; i++)
      for (int j = i + 1; j < nhosts; j++) {
        auto* l = z->add_link("l" + std::to_string(i) + "_" + std::to_string(j), 1e8 / (1 + i + j));
        l->set_latency(1e-4 * (1 + i + 2 * j));
        z->add_route(hs[i], hs[j], {l});
      }
    z->seal();
  }
  hosts = e.get_all_hosts();
  if (not parse(argv[1])) {
    fprintf(stderr, "mc_vm: cannot parse %s\n", argv[1]);
    return 2;
  }
  st.resize(spec.size());
  under_mc     = MC_is_active();
  under_replay = MC_record_replay_is_active();
  if (const char* p = getenv("VERIF_MC_FP"); p != nullptr && under_mc) {
    fp_fd = open(p, O_WRONLY | O_APPEND | O_CREAT, 0644);
    simgrid::verif::on_mc_executed  = hook_executed;
    simgrid::verif::on_mc_quiescent = hook_quiescent;
  }
  bool native = not under_mc && not under_replay;
  if (const char* p = getenv("VERIF_VM_JITTER"); p != nullptr && native) {
    jitter      = true;
    jitter_seed = strtoul(p, nullptr, 10);
  }
  sg4::Engine::on_deadlock_cb([]() { printf("DEADLOCK %s\n", fingerprint(false).c_str()); });
  std::vector<int> order;
  if (const char* p = getenv("VERIF_VM_ORDER"); p != nullptr && native) {
    std::istringstream is(p);
    std::string t;
    while (std::getline(is, t, ','))
      order.push_back(std::stoi(t));
  } else
    for (size_t i = 0; i < spec.size(); i++)
      order.push_back((int)i);
  for (int i : order)
    if (i >= 0 && i < (int)spec.size() && not spec[i].dyn && not st[i].created)
      start_actor(i);
  for (size_t i = 0; i < spec.size(); i++) // an incomplete VERIF_VM_ORDER must not change the program
    if (not spec[i].dyn && not st[i].created)
      start_actor((int)i);
  e.run();
  printf("%s %s\n", under_replay ? "REPLAY" : "FINAL", fingerprint(under_replay).c_str());
  fflush(stdout);
  fflush(stderr);
  _exit(0);
}
