// E4 harness for C27: feeds strings to the real unit parsers of libsimgrid.
// stdin lines: "<kind> <hex-encoded string>"; stdout lines: "<idx> OK <%.17g>" | "<idx> ERR <message-hex>" | "<idx> OTHER"
#include "simgrid/Exception.hpp"
#include "xbt/parse_units.hpp"
#include <cstdio>
#include <iostream>
#include <string>

static std::string unhex(const std::string& h)
{
  std::string s;
  for (size_t i = 0; i + 1 < h.size(); i += 2)
    s.push_back((char)std::stoi(h.substr(i, 2), nullptr, 16));
  return s;
}

int main()
{
  std::string kind, hex;
  long idx = 0;
  while (std::cin >> kind >> hex) {
    std::string s = hex == "-" ? std::string() : unhex(hex);
    try {
      double v;
      if (kind == "time")
        v = xbt_parse_get_time("f", 1, s, "");
      else if (kind == "size")
        v = xbt_parse_get_size("f", 1, s, "");
      else if (kind == "bw")
        v = xbt_parse_get_bandwidth("f", 1, s, "");
      else if (kind == "bws") {
        auto vs = xbt_parse_get_bandwidths("f", 1, s, "");
        printf("%ld OKS", idx);
        for (double x : vs)
          printf(" %.17g", x);
        printf("\n");
        idx++;
        continue;
      } else
        v = xbt_parse_get_speed("f", 1, s, "");
      printf("%ld OK %.17g\n", idx, v);
    } catch (const simgrid::ParseError& e) {
      printf("%ld ERR\n", idx);
    } catch (const std::exception& e) {
      printf("%ld OTHER %s\n", idx, e.what());
    }
    idx++;
  }
  return 0;
}
