// E4 harness for C50: executes a script of dynar / dict operations on the real containers and prints every result.
// stdin ops (one per line). Dynar of long: "dn" new, "dp v" push, "dP" pop, "du v" unshift, "ds" shift, "di i v" insert_at,
// "dr i" remove_at, "dg i" get, "dS i v" set (via set_at_ptr), "dm v" member, "do" sort, "dl" length, "dR" reset, "dd" dump, "dx i" search-cmp
// Dict of long*: "Dn" new, "Ds key v" set, "Dg key" get, "Dr key" remove, "Dl" length, "Dd" dump via cursor, "Df" free
#include "xbt/dict.h"
#include "xbt/dynar.h"
#include "xbt/sysdep.h"
#include <cstdio>
#include <cstdlib>
#include <iostream>
#include <string>
static int cmp_long(const void* a, const void* b)
{
  long x = *(const long*)a, y = *(const long*)b;
  return x < y ? -1 : x > y;
}
static long freed = 0;
static void free_long(void* p)
{
  freed++;
  free(p);
}
int main()
{
  xbt_dynar_t d = nullptr;
  xbt_dict_t D  = nullptr;
  std::string op;
  while (std::cin >> op) {
    if (op == "dn") { if (d) xbt_dynar_free(&d); d = xbt_dynar_new(sizeof(long), nullptr); printf("ok\n"); }
    else if (op == "dp") { long v; std::cin >> v; xbt_dynar_push(d, &v); printf("ok\n"); }
    else if (op == "dP") { long v; xbt_dynar_pop(d, &v); printf("%ld\n", v); }
    else if (op == "du") { long v; std::cin >> v; xbt_dynar_unshift(d, &v); printf("ok\n"); }
    else if (op == "ds") { long v; xbt_dynar_shift(d, &v); printf("%ld\n", v); }
    else if (op == "di") { int i; long v; std::cin >> i >> v; xbt_dynar_insert_at(d, i, &v); printf("ok\n"); }
    else if (op == "dr") { int i; long v; std::cin >> i; xbt_dynar_remove_at(d, i, &v); printf("%ld\n", v); }
    else if (op == "dg") { unsigned long i; long v; std::cin >> i; xbt_dynar_get_cpy(d, i, &v); printf("%ld\n", v); }
    else if (op == "dS") { unsigned long i; long v; std::cin >> i >> v; *(long*)xbt_dynar_set_at_ptr(d, i) = v; printf("ok\n"); }
    else if (op == "dm") { long v; std::cin >> v; printf("%d\n", xbt_dynar_member(d, &v)); }
    else if (op == "do") { xbt_dynar_sort(d, cmp_long); printf("ok\n"); }
    else if (op == "dl") { printf("%lu %d\n", xbt_dynar_length(d), xbt_dynar_is_empty(d)); }
    else if (op == "dR") { xbt_dynar_reset(d); printf("ok\n"); }
    else if (op == "dd") {
      unsigned int cur; long v;
      printf("[");
      xbt_dynar_foreach (d, cur, v) printf(" %ld", v);
      printf(" ]\n");
    }
    else if (op == "Dn") { if (D) xbt_dict_free(&D); D = xbt_dict_new_homogeneous(free_long); printf("ok\n"); }
    else if (op == "Ds") { std::string k; long v; std::cin >> k >> v; long* p = (long*)malloc(sizeof(long)); *p = v; xbt_dict_set(D, k.c_str(), p); printf("ok\n"); }
    else if (op == "Dg") { std::string k; std::cin >> k; long* p = (long*)xbt_dict_get_or_null(D, k.c_str()); if (p) printf("%ld\n", *p); else printf("null\n"); }
    else if (op == "Dr") { std::string k; std::cin >> k; xbt_dict_remove_ext(D, k.c_str(), (int)k.size()); printf("ok\n"); }
    else if (op == "Dl") { printf("%d %d %ld\n", xbt_dict_length(D), xbt_dict_is_empty(D), freed); }
    else if (op == "Dd") {
      xbt_dict_cursor_t c = nullptr; char* key; void* data;
      printf("{");
      xbt_dict_foreach (D, c, key, data) printf(" %s=%ld", key, *(long*)data);
      printf(" }\n");
    }
    else if (op == "Df") { xbt_dict_free(&D); D = nullptr; printf("%ld\n", freed); }
    else { printf("?\n"); }
  }
  if (d) xbt_dynar_free(&d);
  if (D) xbt_dict_free(&D);
  return 0;
}
