#include <mpi.h>
#include <stdio.h>
int g = 0;
int main(int argc, char** argv) {
  MPI_Init(&argc, &argv);
  int r, n; MPI_Comm_rank(MPI_COMM_WORLD, &r); MPI_Comm_size(MPI_COMM_WORLD, &n);
  g = r;
  int s = 0; MPI_Allreduce(&r, &s, 1, MPI_INT, MPI_SUM, MPI_COMM_WORLD);
  printf("rank %d/%d sum=%d g=%d t=%f\n", r, n, s, g, MPI_Wtime());
  MPI_Finalize();
  return 0;
}
