#include "src/mc/transition/Transition.hpp"
#include "src/mc/transition/TransitionSynchro.hpp"
#include "src/mc/remote/Channel.hpp"
#include "src/mc/explo/odpor/Execution.hpp"
#include <cstdio>
#include <random>
#include <set>
using namespace simgrid::mc;
template <class... A> static Transition* mk(int aid, A... fields) {
  Channel in, tmp; (tmp.pack(fields), ...);
  in.reinject(tmp.buffer_out_, tmp.buffer_out_size_); tmp.buffer_out_size_ = 0;
  return deserialize_transition(Aid(aid), 0, in);
}
int main(int argc, char** argv) {
  unsigned seed = atoi(argv[1]); int nexec = atoi(argv[2]);
  std::mt19937 rng(seed); auto U = [&](int k) { return (int)(rng() % k); };
  long pairs = 0, hbbad = 0, racebad = 0, events = 0, asym = 0;
  for (int x = 0; x < nexec; x++) {
    int n = 2 + U(39), nact = 2 + U(5), nobj = 1 + U(3);
    std::vector<TransitionPtr> ts;
    for (int i = 0; i < n; i++) {
      int a = 1 + U(nact); unsigned o = U(nobj); Transition* t;
      switch (U(10)) {
        case 0: t = mk(a, Transition::Type::MUTEX_ASYNC_LOCK, o, (aid_t)(1 + U(nact))); break;
        case 1: t = mk(a, Transition::Type::MUTEX_WAIT, o, (aid_t)a); break;
        case 2: t = mk(a, Transition::Type::MUTEX_UNLOCK, o, (aid_t)a); break;
        case 3: t = mk(a, Transition::Type::MUTEX_TRYLOCK, o, (aid_t)(U(2) ? a : -1)); break;
        case 4: t = mk(a, Transition::Type::SEM_ASYNC_LOCK, o, false, (int)U(3) - 1); break;
        case 5: t = mk(a, Transition::Type::SEM_WAIT, o, true, (int)U(3)); break;
        case 6: t = mk(a, Transition::Type::SEM_UNLOCK, o, false, (int)U(3)); break;
        case 7: t = mk(a, Transition::Type::BARRIER_ASYNC_LOCK, o); break;
        case 8: t = mk(a, Transition::Type::BARRIER_WAIT, o); break;
        default: t = mk(a, Transition::Type::MUTEX_TEST, o, (aid_t)a); break;
      }
      ts.emplace_back(t);
    }
    odpor::Execution ex; for (auto& t : ts) ex.push_transition(t);
    // reference: dep[i][j] for i<j ; hb = transitive closure
    std::vector<std::vector<char>> hb(n, std::vector<char>(n, 0));
    for (int i = 0; i < n; i++) for (int j = i + 1; j < n; j++) { bool d1 = ts[i]->dispatch_depends(ts[j].get()), d2 = ts[j]->dispatch_depends(ts[i].get()); if (d1 != d2) asym++; if (d1 || ts[i]->aid_ == ts[j]->aid_) hb[i][j] = 1; }
    for (int k = 0; k < n; k++) for (int i = 0; i < k; i++) if (hb[i][k]) for (int j = k + 1; j < n; j++) if (hb[k][j]) hb[i][j] = 1;
    for (int i = 0; i < n; i++) for (int j = i + 1; j < n; j++) { pairs++; if ((bool)hb[i][j] != ex.happens_before(i, j)) { hbbad++; if (hbbad < 4) printf("HB mismatch seed=%u exec=%d (%d,%d) ref=%d impl=%d  %s | %s\n", seed, x, i, j, hb[i][j], ex.happens_before(i, j), ts[i]->to_string(true).c_str(), ts[j]->to_string(true).c_str()); } }
    for (int e = 0; e < n; e++) { events++;
      std::set<unsigned> ref; for (int i = 0; i < e; i++) { if (ts[i]->aid_ == ts[e]->aid_ || !hb[i][e]) continue; bool mid = false; for (int k = i + 1; k < e && !mid; k++) if (hb[i][k] && hb[k][e]) mid = true; if (!mid) ref.insert(i); }
      std::set<unsigned> impl; for (auto h : ex.get_racing_events_of(e)) impl.insert(h);
      if (ref != impl) { racebad++; if (racebad < 4) { printf("RACE mismatch seed=%u exec=%d event=%d ref={", seed, x, e); for (auto r : ref) printf("%u ", r); printf("} impl={"); for (auto r : impl) printf("%u ", r); printf("}\n"); } } }
  }
  printf("seed=%u executions=%d pairs=%ld hb_mismatch=%ld events=%ld race_mismatch=%ld asymmetric_dep=%ld\n", seed, nexec, pairs, hbbad, events, racebad, asym);
}
