#include <simgrid/s4u.hpp>
#include <cstdio>
namespace sg4 = simgrid::s4u;
int main(int argc, char** argv) {
  sg4::Engine e(&argc, argv);
  e.load_platform(argv[1]);
  auto hosts = e.get_all_hosts();
  for (auto* a : hosts) for (auto* b : hosts) {
    std::vector<sg4::Link*> links; double lat = 0;
    a->route_to(b, links, &lat);
    printf("%s -> %s (%zu links, lat %g):", a->get_cname(), b->get_cname(), links.size(), lat);
    for (auto* l : links) printf(" %s", l->get_cname());
    printf("\n");
  }
}
