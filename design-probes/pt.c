#include <pthread.h>
#include <stdio.h>
pthread_mutex_t m = PTHREAD_MUTEX_INITIALIZER;
int c = 0;
void* f(void* a) { for (int i = 0; i < 3; i++) { pthread_mutex_lock(&m); c++; fprintf(stderr, "T%ld got %d\n", (long)a, c); pthread_mutex_unlock(&m);} return 0; }
int main() { pthread_t t[2]; for (long i = 0; i < 2; i++) pthread_create(&t[i], 0, f, (void*)i); for (int i = 0; i < 2; i++) pthread_join(t[i], 0); fprintf(stderr, "end c=%d\n", c); return 0; }
