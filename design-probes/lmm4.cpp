#include "src/kernel/lmm/maxmin.hpp"
#include "simgrid/kernel/resource/Model.hpp"
#include "simgrid/kernel/resource/Action.hpp"
#include <cstdio>
#include <random>
#include <cmath>
using namespace simgrid::kernel;
struct DummyAction : public resource::Action { using resource::Action::Action; void update_remains_lazy(double) override {} };
struct V { lmm::Variable* v; DummyAction* a; double pen, bound; std::vector<std::pair<int, double>> el; };
int main(int argc, char** argv) {
  unsigned seed = argc > 1 ? atoi(argv[1]) : 1; int nhist = argc > 2 ? atoi(argv[2]) : 200; int limit = argc > 3 ? atoi(argv[3]) : -1;
  std::mt19937 rng(seed); auto U = [&](int n) { return (int)(rng() % n); }; auto R = [&]() { return (rng() % 1000 + 1) / 100.0; };
  long solves = 0, mism = 0, stagedviol = 0, capviol = 0;
  for (int h = 0; h < nhist; h++) {
    resource::Model model("m" + std::to_string(h));
    lmm::System* s = lmm::System::build("maxmin", true); model.set_maxmin_system(s);
    int nc = 1 + U(5); std::vector<lmm::Constraint*> cs; std::vector<double> cb;
    for (int i = 0; i < nc; i++) { cb.push_back(R()); cs.push_back(s->constraint_new(nullptr, cb[i])); if (limit > 0) cs[i]->set_concurrency_limit(1 + U(limit)); if (U(5) == 0) cs[i]->unshare(); }
    std::vector<V> vs;
    bool tr = getenv("TRACE_H") && atoi(getenv("TRACE_H")) == h; if (tr) { printf("nc=%d bounds:", nc); for (int i = 0; i < nc; i++) printf(" %g%s(lim %d)", cb[i], cs[i]->get_sharing_policy() == lmm::Constraint::SharingPolicy::FATPIPE ? "F" : "S", cs[i]->get_concurrency_limit()); printf("\n"); }
    for (int step = 0; step < 40; step++) {
      int op = U(10);
      if (op < 3 || vs.empty()) { V x; x.pen = U(6) == 0 ? 0.0 : R(); x.bound = U(3) == 0 ? R() : -1.0; x.a = new DummyAction(&model, 1.0, false); x.v = s->variable_new(x.a, x.pen, x.bound, nc); x.a->set_variable(x.v);
        int k = 1 + U(nc); for (int j = 0; j < k; j++) { int c = U(nc); double w = U(4) == 0 ? 0.05 : 1.0; s->expand(cs[c], x.v, w); bool found = false; for (auto& e : x.el) if (e.first == c) { if (cs[c]->get_sharing_policy() == lmm::Constraint::SharingPolicy::FATPIPE) e.second = std::max(e.second, w); else e.second += w; found = true; } if (!found) x.el.push_back({c, w}); }
        vs.push_back(x); if (tr) { printf("step %d: new var pen=%g bound=%g elems:", step, x.pen, x.bound); for (auto& e : x.el) printf(" c%d*%g", e.first, e.second); printf("\n"); } }
      else if (op == 3) { int i = U(vs.size()); if (tr) printf("step %d: free var %d\n", step, i); s->variable_free(vs[i].v); vs[i].a->set_variable(nullptr); vs.erase(vs.begin() + i); }
      else if (op == 4) { int i = U(vs.size()); vs[i].pen = U(3) == 0 ? 0.0 : R(); s->update_variable_penalty(vs[i].v, vs[i].pen); if (tr) printf("step %d: var %d penalty=%g\n", step, i, vs[i].pen); }
      else if (op == 5) { int i = U(vs.size()); vs[i].bound = U(3) == 0 ? -1.0 : R(); s->update_variable_bound(vs[i].v, vs[i].bound); if (tr) printf("step %d: var %d bound=%g\n", step, i, vs[i].bound); }
      else if (op == 6) { int c = U(nc); cb[c] = R(); s->update_constraint_bound(cs[c], cb[c]); if (tr) printf("step %d: cnst %d bound=%g\n", step, c, cb[c]); }
      else { s->solve(); solves++; if (tr) { printf("step %d: solve ->", step); for (auto& x : vs) printf(" %g", x.v->get_value()); printf("\n"); }
        /* capacity check + staged check on A */
        for (int c = 0; c < nc; c++) { double sum = 0, mx = 0; for (auto& x : vs) for (auto& e : x.el) if (e.first == c) { sum += e.second * x.v->get_value(); mx = std::max(mx, e.second * x.v->get_value()); }
          double used = cs[c]->get_sharing_policy() == lmm::Constraint::SharingPolicy::FATPIPE ? mx : sum; if (used > cb[c] * (1 + 1e-5) + 1e-9) { capviol++; if (capviol < 3) printf("CAP seed=%u hist=%d step=%d cnst=%d used=%g bound=%g\n", seed, h, step, c, used, cb[c]); } }
        if (limit > 0) for (auto& x : vs) if (x.v->staged_sharing_penalty_ > 0 && x.v->get_min_concurrency_slack() > 0) { stagedviol++; if (stagedviol < 3) printf("STAGED seed=%u hist=%d step=%d var staged with slack %d\n", seed, h, step, x.v->get_min_concurrency_slack()); }
        if (limit <= 0) { /* fresh full system B */
          lmm::System* b = lmm::System::build("maxmin", false); std::vector<lmm::Constraint*> bc; for (int c = 0; c < nc; c++) { bc.push_back(b->constraint_new(nullptr, cb[c])); if (cs[c]->get_sharing_policy() == lmm::Constraint::SharingPolicy::FATPIPE) bc[c]->unshare(); }
          std::vector<lmm::Variable*> bv; for (auto& x : vs) { auto* v = b->variable_new(nullptr, x.pen, x.bound, nc); for (auto& e : x.el) b->expand(bc[e.first], v, e.second); bv.push_back(v); }
          b->solve();
          for (size_t i = 0; i < vs.size(); i++) { double va = vs[i].v->get_value(), vb = bv[i]->get_value(); if (std::fabs(va - vb) > 1e-5 * std::max(1.0, std::fabs(vb))) { mism++; if (mism < 4) printf("MISMATCH seed=%u hist=%d step=%d var=%zu selective=%g fresh=%g pen=%g bound=%g\n", seed, h, step, i, va, vb, vs[i].pen, vs[i].bound); } }
          for (auto* v : bv) b->variable_free(v); delete b; } }
    }
    for (auto& x : vs) { s->variable_free(x.v); x.a->set_variable(nullptr); }
  }
  printf("seed=%u histories=%d solves=%ld mismatches=%ld capviol=%ld stagedviol=%ld\n", seed, nhist, solves, mism, capviol, stagedviol);
}
