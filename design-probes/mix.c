#include <mpi.h>
#include <stdio.h>
#include <stdlib.h>
int main(int argc, char** argv) {
  MPI_Init(&argc, &argv);
  int r, n; MPI_Comm_rank(MPI_COMM_WORLD, &r); MPI_Comm_size(MPI_COMM_WORLD, &n);
  int bad = 0;
  /* 1. Comm_split: color = r%3 (rank 4 undefined), key = -r  => order reversed */
  { MPI_Comm c; int color = (r == 4) ? MPI_UNDEFINED : r % 3; MPI_Comm_split(MPI_COMM_WORLD, color, -r, &c);
    if (r == 4) { if (c != MPI_COMM_NULL) { bad++; printf("VIOL split: undefined color got a comm\n"); } }
    else { int cr, cn; MPI_Comm_rank(c, &cr); MPI_Comm_size(c, &cn); int exp_n = 0, exp_r = 0; for (int q = 0; q < n; q++) if (q != 4 && q % 3 == color) { exp_n++; if (q > r) exp_r++; }
      if (cr != exp_r || cn != exp_n) { bad++; printf("VIOL split: world %d color %d got rank %d/%d expected %d/%d\n", r, color, cr, cn, exp_r, exp_n); }
      /* isolation: same tag on world and c */
      int tok = 1000 + r, got = -1; int peer = (cr + 1) % cn, from = (cr + cn - 1) % cn; MPI_Sendrecv(&tok, 1, MPI_INT, peer, 5, &got, 1, MPI_INT, from, 5, c, MPI_STATUS_IGNORE);
      MPI_Comm_free(&c); } }
  /* 2. RMA */
  { int* base; MPI_Win w; MPI_Alloc_mem(sizeof(int) * 8, MPI_INFO_NULL, &base); for (int i = 0; i < 8; i++) base[i] = 0; MPI_Win_create(base, sizeof(int) * 8, sizeof(int), MPI_INFO_NULL, MPI_COMM_WORLD, &w);
    MPI_Win_fence(0, w); int v = r + 1; MPI_Put(&v, 1, MPI_INT, (r + 1) % n, r % 8, 1, MPI_INT, w); MPI_Win_fence(0, w);
    int src = (r + n - 1) % n; if (base[src % 8] != src + 1) { bad++; printf("VIOL rma fence put: rank %d slot %d = %d expected %d\n", r, src % 8, base[src % 8], src + 1); }
    MPI_Win_fence(0, w); for (int i = 0; i < 8; i++) base[i] = 0; MPI_Win_fence(0, w);
    int one = r + 1; MPI_Win_lock(MPI_LOCK_EXCLUSIVE, 0, 0, w); MPI_Accumulate(&one, 1, MPI_INT, 0, 3, 1, MPI_INT, MPI_SUM, w); MPI_Win_unlock(0, w);
    MPI_Barrier(MPI_COMM_WORLD); if (r == 0) { MPI_Win_lock(MPI_LOCK_SHARED, 0, 0, w); int s = base[3]; MPI_Win_unlock(0, w); if (s != n * (n + 1) / 2) { bad++; printf("VIOL rma accumulate: %d expected %d\n", s, n * (n + 1) / 2); } }
    int old = -1, cmp = 0, nw = r + 100; MPI_Barrier(MPI_COMM_WORLD); MPI_Win_lock(MPI_LOCK_EXCLUSIVE, 0, 0, w); MPI_Compare_and_swap(&nw, &cmp, &old, MPI_INT, 0, 5, w); MPI_Win_unlock(0, w); MPI_Barrier(MPI_COMM_WORLD);
    int winners = 0, allw = 0; winners = (old == 0); MPI_Allreduce(&winners, &allw, 1, MPI_INT, MPI_SUM, MPI_COMM_WORLD); if (allw != 1) { bad++; if (r == 0) printf("VIOL rma CAS: %d winners\n", allw); }
    int g = -1; MPI_Win_lock(MPI_LOCK_SHARED, 0, 0, w); MPI_Get(&g, 1, MPI_INT, 0, 5, 1, MPI_INT, w); MPI_Win_unlock(0, w); if (g < 100 || g >= 100 + n) { bad++; printf("VIOL rma get after CAS: %d\n", g); }
    MPI_Win_free(&w); MPI_Free_mem(base); }
  /* 3. probe */
  if (r == 0) { int a = 11, b = 22; MPI_Send(&a, 1, MPI_INT, 1, 7, MPI_COMM_WORLD); MPI_Ssend(&b, 1, MPI_INT, 1, 9, MPI_COMM_WORLD); }
  if (r == 1) { MPI_Status st; int x; MPI_Probe(MPI_ANY_SOURCE, MPI_ANY_TAG, MPI_COMM_WORLD, &st); int cnt; MPI_Get_count(&st, MPI_INT, &cnt); if (st.MPI_TAG != 7 || st.MPI_SOURCE != 0 || cnt != 1) { bad++; printf("VIOL probe: tag %d src %d cnt %d\n", st.MPI_TAG, st.MPI_SOURCE, cnt); }
    int flag = 0; MPI_Iprobe(0, 9, MPI_COMM_WORLD, &flag, &st); MPI_Recv(&x, 1, MPI_INT, 0, 9, MPI_COMM_WORLD, &st); if (x != 22) { bad++; printf("VIOL recv tag 9 got %d\n", x); } MPI_Recv(&x, 1, MPI_INT, MPI_ANY_SOURCE, MPI_ANY_TAG, MPI_COMM_WORLD, &st); if (x != 11 || st.MPI_TAG != 7) { bad++; printf("VIOL recv any got %d tag %d\n", x, st.MPI_TAG); }
    char small[2]; int big[4] = {1, 2, 3, 4}; (void)small; (void)big; }
  /* truncation */
  MPI_Comm_set_errhandler(MPI_COMM_WORLD, MPI_ERRORS_RETURN);
  if (r == 2) { int big[4] = {1, 2, 3, 4}; MPI_Send(big, 4, MPI_INT, 3, 1, MPI_COMM_WORLD); }
  if (r == 3) { int sm[2]; MPI_Status st; int rc = MPI_Recv(sm, 2, MPI_INT, 2, 1, MPI_COMM_WORLD, &st); if (rc != MPI_ERR_TRUNCATE) { bad++; printf("VIOL truncation: rc=%d (MPI_ERR_TRUNCATE=%d) st.err=%d\n", rc, MPI_ERR_TRUNCATE, st.MPI_ERROR); } }
  printf("DONE rank %d bad=%d\n", r, bad);
  MPI_Finalize();
  return 0;
}
