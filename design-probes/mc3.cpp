#include <simgrid/s4u.hpp>
#include <simgrid/modelchecker.h>
#include <unistd.h>
namespace sg4 = simgrid::s4u;
XBT_LOG_NEW_DEFAULT_CATEGORY(t, "t");
static std::string obs[8]; static int alive = 0;
static void done(int me) { if (--alive == 0) { std::string s = "OUTCOME"; for (int i = 0; i < 8; i++) if (!obs[i].empty()) s += " " + std::to_string(i) + ":" + obs[i]; s += "\n"; if (write(2, s.c_str(), s.size())) {} } }
int main(int argc, char** argv) {
  sg4::Engine e(&argc, argv);
  auto* z = e.get_netzone_root()->add_netzone_full("z");
  auto* h = z->add_host("h", 1e9);
  z->seal();
  int prog = atoi(argv[1]);
  auto m = sg4::Mutex::create(); auto sem = sg4::Semaphore::create(1); auto* mb = sg4::Mailbox::by_name("mb");
  static int shared = 0;
  if (prog == 0) { // 3 actors increments under mutex + records order
    alive = 3;
    for (int i = 0; i < 3; i++) h->add_actor("a" + std::to_string(i), [i, m]() { m->lock(); obs[i] += std::to_string(shared++); m->unlock(); done(i); });
  } else if (prog == 1) { // 2 senders, 1 receiver: order of receipt
    alive = 3;
    for (int i = 0; i < 2; i++) h->add_actor("s" + std::to_string(i), [i, mb]() { mb->put(new int(i), 1); done(i); });
    h->add_actor("r", [mb]() { for (int k = 0; k < 2; k++) { int* p = mb->get<int>(); obs[2] += std::to_string(*p); delete p; } done(2); });
  } else if (prog == 2) { // semaphore + mutex mix with 3 actors
    alive = 3;
    for (int i = 0; i < 3; i++) h->add_actor("a" + std::to_string(i), [i, m, sem]() { sem->acquire(); static int cs = 0, cm = 0; obs[i] += "s" + std::to_string(cs++); sem->release(); m->lock(); obs[i] += "m" + std::to_string(cm++); m->unlock(); done(i); });
  }
  e.run();
}
