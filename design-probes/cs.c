#include <mpi.h>
#include <stdio.h>
#include <stdlib.h>
int main(int argc, char** argv) {
  MPI_Init(&argc, &argv);
  int r, n; MPI_Comm_rank(MPI_COMM_WORLD, &r); MPI_Comm_size(MPI_COMM_WORLD, &n);
  int dims[2] = {3, 4}, per[2] = {0, 1}; MPI_Comm cart, sub;
  MPI_Cart_create(MPI_COMM_WORLD, 2, dims, per, 0, &cart);
  int remain[2] = {0, 1};
  MPI_Cart_sub(cart, remain, &sub);
  int sr, sn, nd = -1, sd[2] = {-1,-1}, sp[2] = {-1,-1}, sc[2] = {-1,-1};
  MPI_Comm_rank(sub, &sr); MPI_Comm_size(sub, &sn);
  MPI_Cartdim_get(sub, &nd);
  MPI_Cart_get(sub, 1, sd, sp, sc);
  int src=-9, dst=-9; if (getenv("DOSHIFT")) MPI_Cart_shift(sub, 0, 1, &src, &dst);
  printf("world %2d: sub rank %d/%d ndims=%d dims=%d per=%d coord=%d shift(+1): src=%d dst=%d\n", r, sr, sn, nd, sd[0], sp[0], sc[0], src, dst);
  /* group intersection ordering */
  if (r == 0) {
    MPI_Group w, g1, g2, gi; MPI_Comm_group(MPI_COMM_WORLD, &w);
    int a[3] = {5, 2, 7}, b[3] = {7, 5, 2};
    MPI_Group_incl(w, 3, a, &g1); MPI_Group_incl(w, 3, b, &g2);
    MPI_Group_intersection(g1, g2, &gi);
    int rk[3] = {0,1,2}, out[3]; MPI_Group_translate_ranks(gi, 3, rk, w, out);
    printf("intersection({5,2,7},{7,5,2}) = {%d,%d,%d} (MPI: order of first group = 5,2,7)\n", out[0], out[1], out[2]);
  }
  MPI_Finalize();
  return 0;
}
