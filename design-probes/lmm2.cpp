#include "src/kernel/lmm/maxmin.hpp"
#include "simgrid/kernel/resource/Model.hpp"
#include "simgrid/kernel/resource/Action.hpp"
#include <cstdio>
using namespace simgrid::kernel;
struct DummyAction : public resource::Action {
  using resource::Action::Action;
  void update_remains_lazy(double) override {}
};
int main() {
  resource::Model model("verif-dummy");
  lmm::System* s = lmm::System::build("maxmin", true);
  model.set_maxmin_system(s);
  lmm::Constraint* c1 = s->constraint_new(nullptr, 10.0);
  lmm::Constraint* c2 = s->constraint_new(nullptr, 4.0);
  c1->set_concurrency_limit(1);
  std::vector<DummyAction*> acts;
  std::vector<lmm::Variable*> vars;
  for (int i = 0; i < 3; i++) {
    auto* a = new DummyAction(&model, 100.0, false);
    auto* v = s->variable_new(a, 1.0 + i, -1, 2);
    a->set_variable(v);
    acts.push_back(a); vars.push_back(v);
    s->expand(c1, v, 1.0);
    if (i) s->expand(c2, v, 1.0);
  }
  s->solve();
  for (auto* v : vars) printf("v%d: value=%g pen=%g staged=%g\n", v->rank_, v->get_value(), v->sharing_penalty_, v->staged_sharing_penalty_);
  printf("c1 conc=%d/%d modified_set size=%zu\n", c1->concurrency_current_, c1->get_concurrency_limit(), s->get_modified_action_set()->size());
  s->update_variable_penalty(vars[0], 0.0);
  s->solve();
  for (auto* v : vars) printf("v%d: value=%g pen=%g staged=%g\n", v->rank_, v->get_value(), v->sharing_penalty_, v->staged_sharing_penalty_);
  for (auto* a : acts) { s->variable_free(a->get_variable()); a->set_variable(nullptr); }
  return 0;
}
