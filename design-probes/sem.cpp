#include <simgrid/s4u.hpp>
namespace sg4 = simgrid::s4u;
XBT_LOG_NEW_DEFAULT_CATEGORY(t, "t");
int main(int argc, char** argv) {
  sg4::Engine e(&argc, argv);
  auto* z = e.get_netzone_root()->add_netzone_full("z");
  auto* h = z->add_host("h", 1e9);
  auto* h2 = z->add_host("h2", 1e9);
  auto* l = z->add_link("l", 1e6)->set_latency(0);
  z->add_route(h, h2, {l});
  z->seal();
  // (e) timeout racing with release at the same date
  auto sem = sg4::Semaphore::create(0);
  h->add_actor("w1", [sem]() { bool to = sem->acquire_timeout(1.0); XBT_INFO("w1 acquire_timeout(1) -> timeout=%d cap=%d", to, sem->get_capacity()); });
  h->add_actor("w2", [sem]() { bool to = sem->acquire_timeout(1.0); XBT_INFO("w2 acquire_timeout(1) -> timeout=%d cap=%d", to, sem->get_capacity()); });
  h->add_actor("r", [sem]() { sg4::this_actor::sleep_for(1.0); sem->release(); XBT_INFO("r released at 1.0 cap=%d", sem->get_capacity());
                              sg4::this_actor::sleep_for(1.0); XBT_INFO("final cap=%d (conservation: 0+1-#success)", sem->get_capacity()); });
  // (a,b,c) lifecycle
  auto victim = h->add_actor("victim", []() { sg4::this_actor::on_exit([](bool f) { XBT_INFO("exit cb 1 failed=%d", f); });
                                              sg4::this_actor::on_exit([](bool f) { XBT_INFO("exit cb 2 failed=%d", f); });
                                              sg4::this_actor::sleep_for(100); });
  victim->set_kill_time(3.25);
  h->add_actor("joiner", [victim]() { victim->join(10); XBT_INFO("join(10) returned"); victim->join(); XBT_INFO("join on dead returned");
                                      auto t0 = sg4::Engine::get_clock(); victim->join(5); XBT_INFO("join(5) on dead took %g", sg4::Engine::get_clock() - t0); });
  h->add_actor("joiner2", [victim]() { victim->join(2); XBT_INFO("join(2) returned (timeout)"); });
  // (d) wait_for tie: exec of 1e9 flops on 1e9 host = 1s, wait_for(1.0)
  h2->add_actor("tie", []() { auto ex = sg4::this_actor::exec_async(1e9); try { ex->wait_for(1.0); XBT_INFO("exec completed on tie"); } catch (const simgrid::TimeoutException&) { XBT_INFO("TIMEOUT on tie"); }
     auto ex2 = sg4::this_actor::exec_async(1e9); try { ex2->wait_for(0.999999999); XBT_INFO("exec completed before 0.999999999?!"); } catch (const simgrid::TimeoutException&) { XBT_INFO("timeout just before, remaining=%g", ex2->get_remaining()); }
 });
  e.run();
  XBT_INFO("end %g", sg4::Engine::get_clock());
}
