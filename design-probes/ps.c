#include <mpi.h>
#include <stdio.h>
#include <stdlib.h>
#include <string.h>
#include <stdint.h>
int main(int argc, char** argv) {
  MPI_Init(&argc, &argv);
  int r; MPI_Comm_rank(MPI_COMM_WORLD, &r);
  size_t page = 4096, N = 64 * page;
  /* shared blocks: [8p,24p) and [40p,56p); private: [0,8p) [24p,40p) [56p,64p) */
  size_t offs[4] = {8 * page, 24 * page, 40 * page, 56 * page};
  uint8_t* buf = SMPI_PARTIAL_SHARED_MALLOC(N, offs, 2);
  struct { size_t off, len; } msgs[] = { {0, N}, {0, 8 * page}, {2 * page, 4 * page}, {26 * page, 10 * page}, {2 * page, 30 * page}, {30 * page, 30 * page}, {25 * page + 100, 3000} };
  int nm = sizeof(msgs) / sizeof(msgs[0]);
  for (int m = 0; m < nm; m++) {
    size_t off = msgs[m].off, len = msgs[m].len;
    if (r == 0) { for (size_t i = 0; i < N; i++) { int priv = (i < 8 * page) || (i >= 24 * page && i < 40 * page) || i >= 56 * page; if (priv) buf[i] = (uint8_t)(i * 7 + m + 1); }
      MPI_Send(buf + off, len, MPI_BYTE, 1, m, MPI_COMM_WORLD); }
    else { for (size_t i = 0; i < N; i++) { int priv = (i < 8 * page) || (i >= 24 * page && i < 40 * page) || i >= 56 * page; if (priv) buf[i] = 0; }
      MPI_Recv(buf + off, len, MPI_BYTE, 0, m, MPI_COMM_WORLD, MPI_STATUS_IGNORE);
      size_t bad = 0, checked = 0, firstbad = 0;
      for (size_t i = off; i < off + len; i++) { int priv = (i < 8 * page) || (i >= 24 * page && i < 40 * page) || i >= 56 * page; if (priv) { checked++; if (buf[i] != (uint8_t)(i * 7 + m + 1)) { if (!bad) firstbad = i; bad++; } } }
      printf("msg off=%zup+%zu len=%zu: private bytes checked=%zu missing=%zu (first at %zu) %s\n", off / page, off % page, len, checked, bad, firstbad, bad ? "<== NOT COPIED" : ""); }
  }
  MPI_Finalize();
  return 0;
}
