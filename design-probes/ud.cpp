#include "src/mc/transition/Transition.hpp"
#include "src/mc/transition/TransitionSynchro.hpp"
#include "src/mc/remote/Channel.hpp"
#include "src/mc/explo/udpor/UnfoldingEvent.hpp"
#include "src/mc/explo/udpor/EventSet.hpp"
#include "src/mc/explo/udpor/History.hpp"
#include "src/mc/explo/udpor/Configuration.hpp"
#include "src/mc/explo/udpor/maximal_subsets_iterator.hpp"
#include <cstdio>
#include <random>
#include <set>
#include <memory>
using namespace simgrid::mc;
using namespace simgrid::mc::udpor;
template <class... A> static Transition* mk(int aid, A... fields) {
  Channel in, tmp; (tmp.pack(fields), ...);
  in.reinject(tmp.buffer_out_, tmp.buffer_out_size_); tmp.buffer_out_size_ = 0;
  return deserialize_transition(Aid(aid), 0, in);
}
int main(int argc, char** argv) {
  unsigned seed = atoi(argv[1]); int nunf = atoi(argv[2]);
  std::mt19937 rng(seed); auto U = [&](int k) { return (int)(rng() % k); };
  long subsets = 0, bad_hist = 0, bad_conf = 0, bad_valid = 0, bad_max = 0, bad_iter = 0, unfoldings = 0, iter_sets = 0;
  for (int x = 0; x < nunf; x++) {
    int n = 2 + U(9);   // <= 10 events so that 2^n subsets are cheap
    std::vector<std::unique_ptr<UnfoldingEvent>> ev; std::vector<std::set<int>> hist(n); // hist = strict causes closure
    for (int i = 0; i < n; i++) {
      EventSet causes; std::set<int> h;
      for (int j = 0; j < i; j++) if (U(4) == 0) { causes.insert(ev[j].get()); h.insert(j); h.insert(hist[j].begin(), hist[j].end()); }
      int a = 1 + U(3); unsigned o = U(2); Transition* t;
      switch (U(4)) { case 0: t = mk(a, Transition::Type::MUTEX_ASYNC_LOCK, o, (aid_t)a); break; case 1: t = mk(a, Transition::Type::MUTEX_UNLOCK, o, (aid_t)a); break; case 2: t = mk(a, Transition::Type::SEM_UNLOCK, o, false, 1); break; default: t = mk(a, Transition::Type::MUTEX_WAIT, o, (aid_t)a); }
      ev.push_back(std::make_unique<UnfoldingEvent>(causes, TransitionPtr(t))); hist[i] = h;
    }
    unfoldings++;
    // history
    for (int i = 0; i < n; i++) { EventSet hs = ev[i]->get_history(); std::set<int> got; for (int j = 0; j < n; j++) if (hs.contains(ev[j].get())) got.insert(j); std::set<int> exp = hist[i]; exp.insert(i); std::set<int> exp2 = hist[i];
      if (got != exp && got != exp2) { bad_hist++; if (bad_hist < 3) printf("HIST mismatch unf=%d ev=%d\n", x, i); } }
    // conflicts: reference = exists e1' in [e1], e2' in [e2], e1' != e2', neither causally related, dependent transitions ("immediate" conflict lifted), following the definition in the class doc
    auto related = [&](int a, int b) { return a == b || hist[a].count(b) || hist[b].count(a); };
    std::vector<std::vector<char>> conf(n, std::vector<char>(n, 0));
    for (int a = 0; a < n; a++) for (int b = 0; b < n; b++) { if (related(a, b)) continue; std::set<int> la = hist[a], lb = hist[b]; la.insert(a); lb.insert(b); bool c = false;
        for (int p : la) for (int q : lb) if (!related(p, q) && ev[p]->get_transition()->dispatch_depends(ev[q]->get_transition())) c = true; conf[a][b] = c; }
    for (int a = 0; a < n; a++) for (int b = 0; b < n; b++) if ((bool)conf[a][b] != ev[a]->conflicts_with(ev[b].get())) { bad_conf++; if (bad_conf < 3) printf("CONFLICT mismatch unf=%d (%d,%d) ref=%d impl=%d\n", x, a, b, conf[a][b], ev[a]->conflicts_with(ev[b].get())); }
    // all subsets: valid configuration, maximal
    std::set<std::set<int>> ref_maximal_sets;
    for (unsigned m = 0; m < (1u << n); m++) { subsets++; EventSet s; std::vector<int> mem; for (int i = 0; i < n; i++) if (m >> i & 1) { s.insert(ev[i].get()); mem.push_back(i); }
      bool closed = true, cfree = true, maximal = true; for (int i : mem) for (int h : hist[i]) if (!(m >> h & 1)) closed = false; for (int i : mem) for (int j : mem) if (conf[i][j]) cfree = false; for (int i : mem) for (int j : mem) if (i != j && hist[j].count(i)) maximal = false;
      if ((closed && cfree) != s.is_valid_configuration()) { bad_valid++; if (bad_valid < 3) printf("VALID mismatch unf=%d mask=%x ref=%d impl=%d\n", x, m, closed && cfree, s.is_valid_configuration()); }
      if (maximal != s.is_maximal()) { bad_max++; if (bad_max < 3) printf("MAXIMAL mismatch unf=%d mask=%x ref=%d\n", x, m, maximal); } }
    // maximal_subsets_iterator over a valid configuration: take the largest causally closed conflict-free prefix greedily
    { Configuration C; std::vector<int> in; for (int i = 0; i < n; i++) { bool ok = true; for (int h : hist[i]) if (std::find(in.begin(), in.end(), h) == in.end()) ok = false; for (int j : in) if (conf[i][j]) ok = false; if (ok) { in.push_back(i); C.add_event(ev[i].get()); } }
      std::set<std::set<int>> ref, got; int k = in.size();
      for (unsigned m = 1; m < (1u << k); m++) { std::set<int> s; for (int b = 0; b < k; b++) if (m >> b & 1) s.insert(in[b]); bool maximal = true; for (int i : s) for (int j : s) if (i != j && hist[j].count(i)) maximal = false; if (maximal) ref.insert(s); }
      long cnt = 0; for (auto it = maximal_subsets_iterator(C); it != maximal_subsets_iterator(); ++it) { std::set<int> s; for (int i = 0; i < n; i++) if (it->contains(ev[i].get())) s.insert(i); if (!s.empty()) { if (got.count(s)) bad_iter++; got.insert(s); } cnt++; }
      iter_sets += got.size(); if (got != ref) { bad_iter++; if (bad_iter < 3) printf("ITER mismatch unf=%d |C|=%d ref=%zu got=%zu\n", x, k, ref.size(), got.size()); } }
  }
  printf("seed=%u unfoldings=%ld subsets=%ld bad_history=%ld bad_conflict=%ld bad_valid=%ld bad_maximal=%ld iter_sets=%ld bad_iter=%ld\n", seed, unfoldings, subsets, bad_hist, bad_conf, bad_valid, bad_max, iter_sets, bad_iter);
}
