#include "xbt/parse_units.hpp"
#include "simgrid/Exception.hpp"
#include <cstdio>
#include <iostream>
#include <string>
int main() {
  std::string kind, s;
  while (std::cin >> kind >> s) {
    try {
      double v = kind == "time" ? xbt_parse_get_time("f", 1, s, "") : kind == "size" ? xbt_parse_get_size("f", 1, s, "") : kind == "bw" ? xbt_parse_get_bandwidth("f", 1, s, "") : xbt_parse_get_speed("f", 1, s, "");
      printf("%s %s OK %.17g\n", kind.c_str(), s.c_str(), v);
    } catch (const simgrid::ParseError& e) { printf("%s %s ERR\n", kind.c_str(), s.c_str()); }
  }
}
