import sys, shlex, collections
def check(path):
    defs={}; cur=None; viol=[]; n=0
    types={}      # alias -> (kind, parent)
    values={}     # alias -> type
    conts={}      # alias -> (type, alive)
    names={}
    stack=collections.defaultdict(list)  # (container,type) -> stack
    links=collections.defaultdict(list)
    last_t=None
    for ln,line in enumerate(open(path,errors='replace'),1):
        line=line.rstrip('\n')
        if not line or line.startswith('#'): continue
        if line.startswith('%'):
            tok=line[1:].split()
            if tok[0]=='EventDef': cur=(tok[1],[]); defs[tok[2]]=cur
            elif tok[0]=='EndEventDef': cur=None
            else: cur[1].append((tok[0],tok[1]))
            continue
        try: f=shlex.split(line)
        except ValueError: viol.append((ln,'unparsable',line)); continue
        if f[0] not in defs: viol.append((ln,'unknown event id',line)); continue
        name,fields=defs[f[0]]
        if len(f)-1!=len(fields): viol.append((ln,'field count %d!=%d for %s'%(len(f)-1,len(fields),name),line)); continue
        ev={k:v for (k,_),v in zip(fields,f[1:])}
        n+=1
        if 'Time' in ev:
            t=float(ev['Time'])
            if last_t is not None and t<last_t: viol.append((ln,'time goes backwards %r<%r'%(t,last_t),line))
            last_t=t
        def need_type(a):
            if a not in types and a!='0': viol.append((ln,'type %s used before definition'%a,line))
        def need_cont(a):
            if a=='0': return
            if a not in conts and a not in names: viol.append((ln,'container %s used before creation'%a,line)); return
            c=conts.get(a) or conts.get(names.get(a))
            if c and not c[1]: viol.append((ln,'container %s used after destruction'%a,line))
        if name.startswith('PajeDefine') and name.endswith('Type'):
            need_type(ev['Type'])
            if name=='PajeDefineLinkType': need_type(ev['StartContainerType']); need_type(ev['EndContainerType'])
            types[ev['Alias']]=(name,ev['Type'])
        elif name=='PajeDefineEntityValue':
            need_type(ev['Type']); values[ev['Alias']]=ev['Type']
        elif name=='PajeCreateContainer':
            need_type(ev['Type']); need_cont(ev['Container'])
            if ev['Alias'] in conts and conts[ev['Alias']][1]: viol.append((ln,'container alias reused while alive',line))
            conts[ev['Alias']]=[ev['Type'],True]; names[ev['Name']]=ev['Alias']
        elif name=='PajeDestroyContainer':
            a=ev['Name']; a=a if a in conts else names.get(a)
            if a not in conts or not conts[a][1]: viol.append((ln,'destroying unknown/dead container',line))
            else: conts[a][1]=False
        else:
            if 'Type' in ev: need_type(ev['Type'])
            if 'Container' in ev: need_cont(ev['Container'])
            for k in ('StartContainer','EndContainer'):
                if k in ev: need_cont(ev[k])
            key=(ev.get('Container'),ev.get('Type'))
            if name=='PajePushState':
                if ev['Value'] not in values: viol.append((ln,'value used before definition',line))
                stack[key].append(ev['Value'])
            elif name=='PajePopState':
                if not stack[key]: viol.append((ln,'pop on empty state stack',line))
                else: stack[key].pop()
            elif name=='PajeSetState':
                if ev['Value'] not in values: viol.append((ln,'value used before definition',line))
                stack[key]=[ev['Value']]
            elif name=='PajeResetState': stack[key]=[]
            elif name=='PajeStartLink': links[(ev['Type'],ev['Key'])].append(ln)
            elif name=='PajeEndLink': links[(ev['Type'],ev['Key'])].append(-ln)
    unbalanced={k:len(v) for k,v in stack.items() if v}
    return n,viol,unbalanced,sum(1 for v in links.values() if len(v)%2)
if __name__=='__main__':
    for p in sys.argv[1:]:
        n,viol,unb,ul=check(p)
        print(p,'events',n,'violations',len(viol),'nonempty-state-stacks-at-end',len(unb),'unpaired-links',ul)
        for v in viol[:8]: print('   ',v)
