#include <simgrid/s4u.hpp>
namespace sg4 = simgrid::s4u;
XBT_LOG_NEW_DEFAULT_CATEGORY(t, "t");
struct Msg { int sender; int seq; };
int main(int argc, char** argv) {
  sg4::Engine e(&argc, argv);
  auto* z = e.get_netzone_root()->add_netzone_full("z");
  std::vector<sg4::Host*> h; for (int i = 0; i < 4; i++) h.push_back(z->add_host("h" + std::to_string(i), 1e9));
  auto* l = z->add_link("l", 1e6)->set_latency(0.001);
  for (int i = 0; i < 4; i++) for (int j = i + 1; j < 4; j++) z->add_route(h[i], h[j], {l});
  z->seal();
  std::string sc = argv[1];
  auto* mb = sg4::Mailbox::by_name("mb");
  if (sc == "perm") {           // permanent receiver: eager sends of decreasing sizes; recv later
    auto rcv = h[0]->add_actor("rcv", [mb]() { sg4::this_actor::sleep_for(5); for (int k = 0; k < 6; k++) { auto* m = mb->get<Msg>(); XBT_INFO("got %d/%d", m->sender, m->seq); delete m; } });
    mb->set_receiver(rcv);
    for (int s = 1; s <= 2; s++) h[s]->add_actor("snd" + std::to_string(s), [mb, s]() { for (int k = 0; k < 3; k++) { mb->put_init(new Msg{s, k}, 1e6 / (k + 1) / s)->detach(); sg4::this_actor::sleep_for(0.01); } });
  } else if (sc == "mq") {
    auto* q = sg4::MessageQueue::by_name("q");
    for (int s = 1; s <= 2; s++) h[s]->add_actor("p" + std::to_string(s), [q, s]() { for (int k = 0; k < 3; k++) { q->put_async(new Msg{s, k}); } sg4::this_actor::sleep_for(1); });
    for (int c = 0; c < 2; c++) h[0]->add_actor("c" + std::to_string(c), [q, c]() { sg4::this_actor::sleep_for(0.1 * c); for (int k = 0; k < 3; k++) { auto* m = q->get<Msg>(); XBT_INFO("c%d got %d/%d", c, m->sender, m->seq); delete m; } });
  } else if (sc == "daemon") {
    for (int d = 0; d < 4; d++) h[d]->add_actor("d" + std::to_string(d), [d]() { sg4::this_actor::on_exit([d](bool f) { XBT_INFO("daemon %d exits failed=%d", d, f); }); sg4::this_actor::sleep_for(1000); })->daemonize();
    h[0]->add_actor("main", []() { sg4::this_actor::sleep_for(2); XBT_INFO("main done"); });
  }
  e.run();
  XBT_INFO("end %g", sg4::Engine::get_clock());
}
