#include <simgrid/s4u.hpp>
namespace sg4 = simgrid::s4u;
XBT_LOG_NEW_DEFAULT_CATEGORY(t, "t");
int main(int argc, char** argv) {
  sg4::Engine e(&argc, argv);
  auto* z = e.get_netzone_root()->add_netzone_full("z");
  auto* a = z->add_host("a", 1e9); auto* b = z->add_host("b", 1e9); auto* c = z->add_host("c", 1e9);
  auto* l1 = z->add_link("l1", 1e6)->set_latency(0.001); auto* l2 = z->add_link("l2", 1e6)->set_latency(0.001);
  z->add_route(a, b, {l1}); z->add_route(a, c, {l2}); z->add_route(b, c, std::vector<const sg4::Link*>{l1, l2});
  z->seal();
  std::string what = argv[1]; double when = std::stod(argv[2]);
  auto wrap = [](const char* name, std::function<void()> f) { return [name, f]() {
      sg4::this_actor::on_exit([name](bool failed) { XBT_INFO("%s on_exit failed=%d", name, failed); });
      try { f(); XBT_INFO("%s finished normally", name); } catch (const simgrid::Exception& ex) { XBT_INFO("%s got exception: %.40s", name, ex.what()); } }; };
  a->add_actor("snd", wrap("snd", [] { sg4::Mailbox::by_name("m")->put(new int(1), 5e6); }));
  b->add_actor("rcv", wrap("rcv", [] { delete sg4::Mailbox::by_name("m")->get<int>(); }));
  b->add_actor("exe", wrap("exe", [] { sg4::this_actor::execute(8e9); }));
  b->add_actor("slp", wrap("slp", [] { sg4::this_actor::sleep_for(7); }));
  c->add_actor("rcv2", wrap("rcv2", [] { delete sg4::Mailbox::by_name("never")->get<int>(10.0); }));
  a->add_actor("snd2", wrap("snd2", [] { auto cm = sg4::Mailbox::by_name("m2")->put_async(new int(2), 3e6); sg4::this_actor::sleep_for(1); cm->wait(); }));
  c->add_actor("rcv3", wrap("rcv3", [] { delete sg4::Mailbox::by_name("m2")->get<int>(); }));
  c->add_actor("ctl", [=]() { sg4::this_actor::sleep_for(when); XBT_INFO("turning off %s", what.c_str());
      if (what == "b") b->turn_off(); else if (what == "a") a->turn_off(); else if (what == "l1") l1->turn_off(); else if (what == "l2") l2->turn_off(); });
  e.run();
  XBT_INFO("end %g", sg4::Engine::get_clock());
}
