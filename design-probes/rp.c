#include <mpi.h>
#include <stdio.h>
#include <stdlib.h>
int main(int argc, char** argv) {
  MPI_Init(&argc, &argv);
  int r, n; MPI_Comm_rank(MPI_COMM_WORLD, &r); MPI_Comm_size(MPI_COMM_WORLD, &n);
  int* buf = malloc(100000 * sizeof(int)); int* out = malloc(100000 * sizeof(int));
  for (int it = 0; it < 3; it++) {
    if (r % 2 == 0 && r + 1 < n) MPI_Send(buf, 1000 * (it + 1), MPI_INT, r + 1, 7, MPI_COMM_WORLD);
    else if (r % 2 == 1) MPI_Recv(buf, 1000 * (it + 1), MPI_INT, r - 1, 7, MPI_COMM_WORLD, MPI_STATUS_IGNORE);
    MPI_Allreduce(buf, out, 500, MPI_INT, MPI_SUM, MPI_COMM_WORLD);
    MPI_Bcast(buf, 20000, MPI_INT, it % n, MPI_COMM_WORLD);
    MPI_Barrier(MPI_COMM_WORLD);
  }
  printf("FINISH rank %d at %.9f\n", r, MPI_Wtime());
  MPI_Finalize();
  return 0;
}
