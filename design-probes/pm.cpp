#include "src/xbt/parmap.hpp"
#include "src/internal_config.h"
#include "simgrid/s4u/Engine.hpp"
#include <atomic>
#include <cstdio>
XBT_LOG_NEW_DEFAULT_CATEGORY(pm, "pm");
struct Item { std::atomic<int> count{0}; };
int main(int argc, char** argv) {
  simgrid::s4u::Engine e(&argc, argv);
  long bad = 0, applies = 0, items = 0;
  for (int mode : {(int)XBT_PARMAP_POSIX, (int)XBT_PARMAP_FUTEX, (int)XBT_PARMAP_BUSY_WAIT})
    for (unsigned nw : {1u, 2u, 3u, 8u, 16u}) {
      simgrid::xbt::Parmap<Item*> parmap(nw, (e_xbt_parmap_mode_t)mode);
      for (size_t len : {0ul, 1ul, 2ul, 7ul, 100ul, 500ul}) {
        std::vector<Item> store(len); std::vector<Item*> data; for (auto& i : store) data.push_back(&i);
        for (int rep = 1; rep <= 20; rep++) {
          parmap.apply([](Item* it) { for (volatile int k = 0; k < 50; k++); it->count.fetch_add(1, std::memory_order_relaxed); }, data);
          applies++;
          for (auto& i : store) { items++; if (i.count.load() != rep) bad++; }
        }
      }
    }
  printf("applies=%ld item-checks=%ld bad=%ld\n", applies, items, bad);
  return bad != 0;
}
