#include <simgrid/s4u.hpp>
namespace sg4 = simgrid::s4u;
XBT_LOG_NEW_DEFAULT_CATEGORY(t, "t");
int main(int argc, char** argv) {
  sg4::Engine e(&argc, argv);
  auto* z = e.get_netzone_root()->add_netzone_full("z");
  auto* h = z->add_host("h", 1e9)->set_core_count(4);
  auto* g = z->add_host("g", 2e9);
  auto* d = h->add_disk("d", 1e8, 4e7);
  auto* l = z->add_link("l", 1e8)->set_latency(0.001);
  z->add_route(h, g, {l});
  z->seal();
  h->add_actor("m", [h, g, d]() {
    for (int k : {1, 3, 4, 6, 9}) { std::vector<sg4::ExecPtr> xs; double t0 = sg4::Engine::get_clock(); for (int i = 0; i < k; i++) xs.push_back(sg4::Exec::init()->set_flops_amount(1e9)->set_host(h)->start());
      for (auto& x : xs) x->wait(); double dt = sg4::Engine::get_clock() - t0; XBT_INFO("k=%d execs of 1e9 on 4 cores@1e9: %.9g (expect %.9g)", k, dt, 1.0 / std::min(1.0, 4.0 / k)); }
    { double t0 = sg4::Engine::get_clock(); sg4::ExecPtr x = sg4::Exec::init()->set_flops_amount(1e9)->set_host(h)->set_bound(2.5e8)->start(); x->wait(); XBT_INFO("bounded exec 2.5e8: %.9g (expect 4)", sg4::Engine::get_clock() - t0); }
    { double t0 = sg4::Engine::get_clock(); d->read(2e8); XBT_INFO("read 2e8 @1e8: %.9g (expect 2)", sg4::Engine::get_clock() - t0); t0 = sg4::Engine::get_clock(); d->write(2e8); XBT_INFO("write 2e8 @4e7: %.9g (expect 5)", sg4::Engine::get_clock() - t0); }
    { double t0 = sg4::Engine::get_clock(); auto a = d->read_async(1e8); auto b = d->read_async(1e8); a->wait(); b->wait(); XBT_INFO("2 concurrent reads 1e8: %.9g (expect 2)", sg4::Engine::get_clock() - t0); }
    { double t0 = sg4::Engine::get_clock(); sg4::this_actor::parallel_execute({h, g}, {3e9, 2e9}, {0, 0, 0, 0}); XBT_INFO("ptask comp only: %.9g (expect max(3,1)=3)", sg4::Engine::get_clock() - t0); }
    { double t0 = sg4::Engine::get_clock(); sg4::ExecPtr x = sg4::Exec::init()->set_flops_amount(4e9)->set_host(h)->set_thread_count(4)->start(); x->wait(); XBT_INFO("4-thread exec 4e9 on 4 cores: %.9g", sg4::Engine::get_clock() - t0); }
  });
  e.run();
}
