#include <simgrid/s4u.hpp>
namespace sg4 = simgrid::s4u;
XBT_LOG_NEW_DEFAULT_CATEGORY(t, "t");
int main(int argc, char** argv) {
  sg4::Engine e(&argc, argv);
  auto* z = e.get_netzone_root()->add_netzone_full("z");
  std::vector<sg4::Host*> h; for (int i = 0; i < 4; i++) h.push_back(z->add_host("h" + std::to_string(i), 1e9));
  auto* l = z->add_link("l", 1e6)->set_latency(0.001);
  for (int i = 0; i < 4; i++) for (int j = i + 1; j < 4; j++) z->add_route(h[i], h[j], {l});
  z->seal();
  // junk allocations of env-dependent sizes to perturb heap layout between runs
  std::vector<void*> junk; int nj = getenv("JUNK") ? atoi(getenv("JUNK")) : 0; for (int i = 0; i < nj; i++) junk.push_back(malloc(16 + (i * 37) % 4000)); for (int i = 0; i < nj; i += 2) free(junk[i]);
  // daemons created in an order unrelated to address order (interleaved allocations)
  for (int d = 0; d < 12; d++) { void* pad = malloc(1 + (d * 7919) % 3000); h[d % 4]->add_actor("d" + std::to_string(d), [d]() { sg4::this_actor::on_exit([d](bool) { XBT_INFO("daemon %d exits", d); }); sg4::this_actor::sleep_for(1000); })->daemonize(); if (d % 3) free(pad); }
  // an actor dying with many pending async activities (peers see cancellations in set order)
  for (int r = 0; r < 6; r++) h[1 + r % 3]->add_actor("peer" + std::to_string(r), [r]() { try { auto* p = sg4::Mailbox::by_name("q" + std::to_string(r))->get<int>(); delete p; XBT_INFO("peer %d got", r); } catch (const simgrid::Exception& ex) { XBT_INFO("peer %d exception", r); } });
  h[0]->add_actor("dying", []() { std::vector<sg4::CommPtr> cs; for (int r = 5; r >= 0; r--) { void* pad = malloc(100 + r * 300); cs.push_back(sg4::Mailbox::by_name("q" + std::to_string(r))->put_async(new int(r), 1e6)); free(pad); } sg4::this_actor::sleep_for(0.5); XBT_INFO("dying now"); sg4::this_actor::exit(); });
  // many timers at the same date
  for (int w = 0; w < 8; w++) h[w % 4]->add_actor("w" + std::to_string(w), [w]() { auto x = sg4::this_actor::exec_async(1e12); try { x->wait_for(2.0); } catch (const simgrid::TimeoutException&) { XBT_INFO("w%d timeout", w); } });
  h[0]->add_actor("main", []() { sg4::this_actor::sleep_for(3); XBT_INFO("main done"); });
  e.run();
  XBT_INFO("end %g", sg4::Engine::get_clock());
}
