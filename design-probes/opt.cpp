#include <simgrid/s4u.hpp>
#include <simgrid/kernel/ProfileBuilder.hpp>
namespace sg4 = simgrid::s4u;
XBT_LOG_NEW_DEFAULT_CATEGORY(t, "t");
int main(int argc, char** argv) {
  sg4::Engine e(&argc, argv);
  auto* z = e.get_netzone_root()->add_netzone_full("z");
  auto* a = z->add_host("a", 1e9);
  auto* b = z->add_host("b", 1e9);
  a->set_speed_profile(simgrid::kernel::profile::ProfileBuilder::from_string("pa", "0 1.0\n1.5 0.5\n2.5 0.25\n4.0 1.0\n", 5.0));
  auto* l = z->add_link("l", 1e6)->set_latency(0.001);
  l->set_bandwidth_profile(simgrid::kernel::profile::ProfileBuilder::from_string("pl", "0 1e6\n2 5e5\n3 2e6\n", 6.0));
  z->add_route(a, b, {l});
  z->seal();
  for (int i = 0; i < 3; i++)
    a->add_actor("x" + std::to_string(i), [i]() { sg4::this_actor::sleep_for(0.3 * i); double t0 = sg4::Engine::get_clock(); sg4::this_actor::execute(1e9 * (i + 1)); XBT_INFO("exec %d took from %.9g to %.9g", i, t0, sg4::Engine::get_clock()); });
  auto victim = a->add_actor("v", []() { sg4::this_actor::execute(2e9); XBT_INFO("v exec done at %.9g", sg4::Engine::get_clock()); });
  b->add_actor("ctl", [victim]() { sg4::this_actor::sleep_for(1.0); victim->suspend(); sg4::this_actor::sleep_for(2.2); victim->resume(); });
  a->add_actor("snd", [b]() { for (int k = 0; k < 3; k++) { double t0 = sg4::Engine::get_clock(); sg4::Comm::sendto(sg4::this_actor::get_host(), b, 1.5e6); XBT_INFO("comm %d from %.9g to %.9g", k, t0, sg4::Engine::get_clock()); } });
  e.run();
  XBT_INFO("end %.9g", sg4::Engine::get_clock());
}
