import sys
from fractions import Fraction as F
def solve(cons, vars_):
    # cons: [(bound, fat)], vars_: [(pen, bound, [w...])]
    n=len(vars_); val=[None]*n
    active=[i for i,(p,b,w) in enumerate(vars_) if p>0 and any(x>0 for x in w)]
    for i,(p,b,w) in enumerate(vars_):
        if i not in active: val[i]=F(0)
    rem=[F(b) for b,_ in cons]
    while active:
        # candidate lambda per constraint
        best=None
        for c,(b,fat) in enumerate(cons):
            us=[(i,vars_[i][2][c]/vars_[i][0]) for i in active if vars_[i][2][c]>0]
            if not us: continue
            if fat:
                # max over active w/pen * lam <= bound (fixed vars don't consume in fatpipe: only the max matters)
                lam=F(cons[c][0])/max(u for _,u in us)
            else:
                lam=rem[c]/sum(u for _,u in us)
            if best is None or lam<best[0]: best=(lam,[('c',c)])
            elif lam==best[0]: best[1].append(('c',c))
        for i in active:
            p,b,w=vars_[i]
            if b>0:
                lam=b*p
                if best is None or lam<best[0]: best=(lam,[('v',i)])
                elif lam==best[0]: best[1].append(('v',i))
        if best is None:  # unconstrained variables: maxmin gives them... (no constraint with weight) cannot happen as active requires weight>0
            break
        lam,who=best
        frozen=set()
        for kind,x in who:
            if kind=='v': frozen.add(x)
            else:
                for i in active:
                    if vars_[i][2][x]>0: frozen.add(i)
        for i in frozen:
            val[i]=lam/vars_[i][0]
            for c,(b,fat) in enumerate(cons):
                if not fat: rem[c]-=vars_[i][2][c]*val[i]
        active=[i for i in active if i not in frozen]
    return val
def main():
    tot=bad=0; worst=0
    lines=sys.stdin.read().split('\n'); k=0
    while k<len(lines):
        if not lines[k].startswith('SYS'): k+=1; continue
        _,nc,nv=lines[k].split(); nc=int(nc); nv=int(nv); k+=1
        cons=[]; vars_=[]
        for _ in range(nc): t=lines[k].split(); cons.append((F(t[1]),int(t[2]))); k+=1
        for _ in range(nv): t=lines[k].split(); vars_.append((F(t[1]),F(t[2]),[F(x) for x in t[3:]])); k+=1
        res=[float(x) for x in lines[k].split()[1:]]; k+=1
        exp=solve(cons,vars_)
        tot+=1
        for i,(r,e) in enumerate(zip(res,exp)):
            e=float(e); err=abs(r-e)/max(1.0,abs(e)); worst=max(worst,err)
            if err>1e-5:
                bad+=1
                if bad<=5: print('MISMATCH sys',tot,'var',i,'simgrid',r,'exact',e,'cons',[(float(b),f) for b,f in cons],'vars',[(float(p),float(b),[float(x) for x in w]) for p,b,w in vars_])
                break
    print('systems',tot,'mismatching',bad,'worst rel err',worst)
main()
