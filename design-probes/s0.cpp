#include <simgrid/s4u.hpp>
#include <simgrid/plugins/file_system.h>
namespace sg4 = simgrid::s4u;
XBT_LOG_NEW_DEFAULT_CATEGORY(t, "t");
int main(int argc, char** argv) {
  sg4::Engine e(&argc, argv);
  sg_storage_file_system_init();
  e.load_platform("/repo/examples/platforms/hosts_with_disks.xml");
  auto* h = e.host_by_name("bob");
  auto* d = h->get_disks().front();
  auto sem = sg4::Semaphore::create(0);
  auto m = sg4::Mutex::create(); auto cv = sg4::ConditionVariable::create();
  h->add_actor("a", [sem]() { bool to = sem->acquire_timeout(0); XBT_INFO("acquire_timeout(0) -> timeout=%d at %g", to, sg4::Engine::get_clock());
                               to = sem->acquire_timeout(1e-12); XBT_INFO("acquire_timeout(1e-12) -> timeout=%d at %.15g", to, sg4::Engine::get_clock()); });
  h->add_actor("c", [m, cv]() { m->lock(); auto st = cv->wait_for(m, 0); XBT_INFO("cv wait_for(0) -> %d at %g", (int)st, sg4::Engine::get_clock()); m->unlock(); });
  h->add_actor("f", [d]() {
    auto* f = sg4::File::open("/scratch/x", nullptr);
    f->write(100); XBT_INFO("after write100: size=%llu used=%llu tell=%llu", f->size(), sg_disk_get_size_used(d), f->tell());
    f->seek(20); f->write(30); XBT_INFO("after seek20+write30 (truncating): size=%llu used=%llu tell=%llu", f->size(), sg_disk_get_size_used(d), f->tell());
    f->seek(10); f->write(5, true); XBT_INFO("after seek10+write5 inside: size=%llu used=%llu tell=%llu", f->size(), sg_disk_get_size_used(d), f->tell());
    f->seek(0); auto r = f->read(1000); XBT_INFO("read(1000) at 0 -> %llu", r);
    f->unlink(); XBT_INFO("after unlink used=%llu", sg_disk_get_size_used(d)); f->close();
  });
  e.run();
  XBT_INFO("end at %g", sg4::Engine::get_clock());
}
