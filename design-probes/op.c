#include <mpi.h>
#include <stdio.h>
#include <stdlib.h>
#include <string.h>
#define T(x) {#x, x}
int main(int argc, char** argv) {
  MPI_Init(&argc, &argv);
  MPI_Comm_set_errhandler(MPI_COMM_WORLD, MPI_ERRORS_RETURN);
  struct { const char* n; MPI_Datatype t; } types[] = { T(MPI_CHAR), T(MPI_SHORT), T(MPI_INT), T(MPI_LONG), T(MPI_LONG_LONG), T(MPI_SIGNED_CHAR), T(MPI_UNSIGNED_CHAR), T(MPI_UNSIGNED_SHORT), T(MPI_UNSIGNED), T(MPI_UNSIGNED_LONG), T(MPI_UNSIGNED_LONG_LONG), T(MPI_FLOAT), T(MPI_DOUBLE), T(MPI_LONG_DOUBLE), T(MPI_WCHAR), T(MPI_C_BOOL), T(MPI_INT8_T), T(MPI_INT16_T), T(MPI_INT32_T), T(MPI_INT64_T), T(MPI_UINT8_T), T(MPI_UINT16_T), T(MPI_UINT32_T), T(MPI_UINT64_T), T(MPI_C_FLOAT_COMPLEX), T(MPI_C_DOUBLE_COMPLEX), T(MPI_C_LONG_DOUBLE_COMPLEX), T(MPI_AINT), T(MPI_OFFSET), T(MPI_COUNT), T(MPI_BYTE), T(MPI_FLOAT_INT), T(MPI_DOUBLE_INT), T(MPI_LONG_INT), T(MPI_2INT), T(MPI_SHORT_INT), T(MPI_LONG_DOUBLE_INT), T(MPI_PACKED) };
  struct { const char* n; MPI_Op o; } ops[] = { T(MPI_MAX), T(MPI_MIN), T(MPI_SUM), T(MPI_PROD), T(MPI_LAND), T(MPI_LOR), T(MPI_LXOR), T(MPI_BAND), T(MPI_BOR), T(MPI_BXOR), T(MPI_MINLOC), T(MPI_MAXLOC), T(MPI_REPLACE), T(MPI_NO_OP) };
  int only_t = argc > 1 ? atoi(argv[1]) : -1, only_o = argc > 2 ? atoi(argv[2]) : -1;
  char a[256], b[256];
  for (unsigned ti = 0; ti < sizeof(types) / sizeof(types[0]); ti++) for (unsigned oi = 0; oi < sizeof(ops) / sizeof(ops[0]); oi++) {
    if ((only_t >= 0 && (int)ti != only_t) || (only_o >= 0 && (int)oi != only_o)) continue;
    memset(a, 1, 256); memset(b, 2, 256);
    printf("PAIR %u %u %s %s ... ", ti, oi, ops[oi].n, types[ti].n); fflush(stdout);
    int rc = MPI_Reduce_local(a, b, 2, types[ti].t, ops[oi].o);
    printf("rc=%d\n", rc); fflush(stdout);
  }
  MPI_Finalize();
  return 0;
}
