#include <simgrid/s4u.hpp>
namespace sg4 = simgrid::s4u;
XBT_LOG_NEW_DEFAULT_CATEGORY(t, "t");
int main(int argc, char** argv) {
  sg4::Engine e(&argc, argv);
  auto* z = e.get_netzone_root()->add_netzone_full("z");
  auto* a = z->add_host("a", 1e9); auto* b = z->add_host("b", 2e9);
  auto* l = z->add_link("l", 1e6)->set_latency(0.01);
  z->add_route(a, b, {l});
  z->seal();
  sg4::Exec::on_start_cb([](sg4::Exec const& ex) { XBT_INFO("start %s at %g", ex.get_cname(), sg4::Engine::get_clock()); });
  sg4::Exec::on_completion_cb([](sg4::Exec const& ex) { XBT_INFO("done %s start=%g finish=%g", ex.get_cname(), ex.get_start_time(), ex.get_finish_time()); });
  sg4::Comm::on_start_cb([](sg4::Comm const& c) { XBT_INFO("start %s at %g", c.get_cname(), sg4::Engine::get_clock()); });
  sg4::Comm::on_completion_cb([](sg4::Comm const& c) { XBT_INFO("done %s start=%g finish=%g", c.get_cname(), c.get_start_time(), c.get_finish_time()); });
  auto e1 = sg4::Exec::init()->set_name("e1")->set_flops_amount(1e9);
  auto e2 = sg4::Exec::init()->set_name("e2")->set_flops_amount(3e9);
  auto c1 = sg4::Comm::sendto_init()->set_name("c1")->set_payload_size(1e6);
  auto e3 = sg4::Exec::init()->set_name("e3")->set_flops_amount(2e9);
  e1->add_successor(c1); c1->add_successor(e3); e2->add_successor(e3);
  e1->start(); e2->start(); c1->start(); e3->start();   // started before assignment
  e3->set_host(b); c1->set_source(a)->set_destination(b); e2->set_host(a); e1->set_host(a);
  e.run();
  XBT_INFO("end %g; states e3=%s", sg4::Engine::get_clock(), e3->get_state_str());
}
