#include <simgrid/s4u.hpp>
namespace sg4 = simgrid::s4u;
XBT_LOG_NEW_DEFAULT_CATEGORY(t, "t");
int main(int argc, char** argv) {
  sg4::Engine e(&argc, argv);
  auto* z = e.get_netzone_root()->add_netzone_full("z");
  auto* a = z->add_host("a", 1e9); auto* b = z->add_host("b", 1e9);
  auto* l1 = z->add_link("l1", 1e6)->set_latency(0.01);
  auto* l2 = z->add_split_duplex_link("l2", 2e6)->set_latency(0.02);
  auto* c = z->add_host("c", 1e9);
  z->add_route(a, b, {l1});
  z->add_route(a, c, {sg4::LinkInRoute(l1), sg4::LinkInRoute(l2, sg4::LinkInRoute::Direction::UP)});
  z->seal();
  a->add_actor("s", [b, c]() {
    for (double size : {1.0, 800000.0, 1e8}) {
      double t0 = sg4::Engine::get_clock(); sg4::Comm::sendto(sg4::this_actor::get_host(), b, size);
      XBT_INFO("a->b size %g took %.9g", size, sg4::Engine::get_clock() - t0);
      t0 = sg4::Engine::get_clock(); sg4::Comm::sendto(sg4::this_actor::get_host(), c, size);
      XBT_INFO("a->c size %g took %.9g", size, sg4::Engine::get_clock() - t0);
    }
  });
  e.run();
}
