#include <mpi.h>
#include <stdio.h>
#include <stdlib.h>
#include <string.h>
int main(int argc, char** argv) {
  MPI_Init(&argc, &argv);
  int r, n; MPI_Comm_rank(MPI_COMM_WORLD, &r); MPI_Comm_size(MPI_COMM_WORLD, &n);
  int sizes[] = {200000, 10, 70000, 1, 65536, 65535, 0, 300000, 5};  /* around thresholds (64KiB default) */
  int ns = sizeof(sizes) / sizeof(int);
  char* buf = malloc(400000);
  if (r == 0) {
    MPI_Request rq[16];
    for (int i = 0; i < ns; i++) { char* b = malloc(sizes[i] + 8); memset(b, 'a' + i, sizes[i] + 8); ((int*)b)[0] = i; MPI_Isend(b, sizes[i] < 4 ? sizes[i] : sizes[i], MPI_CHAR, 1, 42, MPI_COMM_WORLD, &rq[i]); }
    MPI_Waitall(ns, rq, MPI_STATUSES_IGNORE);
  } else if (r == 1) {
    /* delay so that everything is queued */
    for (volatile long k = 0; k < 1000; k++);
    for (int i = 0; i < ns; i++) {
      MPI_Status st; MPI_Recv(buf, 400000, MPI_CHAR, MPI_ANY_SOURCE, MPI_ANY_TAG, MPI_COMM_WORLD, &st);
      int cnt; MPI_Get_count(&st, MPI_CHAR, &cnt);
      printf("recv #%d: count=%d (expected %d) first=%c %s\n", i, cnt, sizes[i], cnt > 4 ? buf[5] : '-', cnt == sizes[i] ? "" : "<== OVERTAKING/ORDER");
    }
  }
  MPI_Finalize();
  return 0;
}
