#include <simgrid/s4u.hpp>
namespace sg4 = simgrid::s4u;
XBT_LOG_NEW_DEFAULT_CATEGORY(t, "t");
int main(int argc, char** argv) {
  sg4::Engine e(&argc, argv);
  auto* z = e.get_netzone_root()->add_netzone_full("z");
  auto* h = z->add_host("h", 1e9);
  z->seal();
  auto m = sg4::Mutex::create(true);
  h->add_actor("a", [m]() {
    bool ok = m->try_lock();
    XBT_INFO("try_lock -> %d", ok);
    m->lock();
    XBT_INFO("locked twice; owner=%s", m->get_owner() ? m->get_owner()->get_cname() : "none");
    m->unlock();
    XBT_INFO("after 1 unlock owner=%s", m->get_owner() ? m->get_owner()->get_cname() : "none");
    sg4::this_actor::sleep_for(2);
    if (m->get_owner()) m->unlock();
    XBT_INFO("after 2 unlock owner=%s", m->get_owner() ? m->get_owner()->get_cname() : "none");
  });
  h->add_actor("b", [m]() {
    sg4::this_actor::sleep_for(1);
    bool ok = m->try_lock();
    XBT_INFO("b try_lock at t=1 -> %d (must be 0)", ok);
    if (ok) m->unlock();
  });
  e.run();
}
