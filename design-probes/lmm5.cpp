#include "src/kernel/lmm/maxmin.hpp"
#include <cstdio>
#include <random>
using namespace simgrid::kernel;
int main(int argc, char** argv) {
  unsigned seed = atoi(argv[1]); int n = atoi(argv[2]);
  std::mt19937 rng(seed); auto U = [&](int k) { return (int)(rng() % k); }; auto R = [&]() { return (rng() % 1000 + 1) / 100.0; };
  for (int it = 0; it < n; it++) {
    lmm::System* s = lmm::System::build("maxmin", false);
    int nc = 1 + U(6), nv = 1 + U(8);
    std::vector<lmm::Constraint*> cs; std::vector<lmm::Variable*> vs;
    printf("SYS %d %d\n", nc, nv);
    for (int c = 0; c < nc; c++) { double b = R(); int fat = U(5) == 0; cs.push_back(s->constraint_new(nullptr, b)); if (fat) cs[c]->unshare(); printf("C %.17g %d\n", b, fat); }
    for (int v = 0; v < nv; v++) { double pen = U(8) == 0 ? 0 : R(), bound = U(3) == 0 ? R() : -1; vs.push_back(s->variable_new(nullptr, pen, bound, nc));
      std::vector<double> w(nc, 0.0); int k = 1 + U(nc); for (int j = 0; j < k; j++) { int c = U(nc); double ww = U(4) == 0 ? 0.05 : (U(3) == 0 ? R() : 1.0); s->expand(cs[c], vs[v], ww); if (cs[c]->get_sharing_policy() == lmm::Constraint::SharingPolicy::FATPIPE) w[c] = std::max(w[c], ww); else w[c] += ww; }
      printf("V %.17g %.17g", pen, bound); for (int c = 0; c < nc; c++) printf(" %.17g", w[c]); printf("\n"); }
    s->solve();
    printf("R"); for (auto* v : vs) printf(" %.17g", v->get_value()); printf("\n");
    for (auto* v : vs) s->variable_free(v); delete s;
  }
}
