#include "src/mc/transition/Transition.hpp"
#include "src/mc/transition/TransitionSynchro.hpp"
#include "src/mc/remote/Channel.hpp"
#include "src/mc/explo/odpor/Execution.hpp"
#include <cstdio>
using namespace simgrid::mc;
static Transition* mk_mutex(Transition::Type t, int aid, unsigned mutex, long owner) {
  Channel in;                       // default: no socket
  Channel tmp;
  tmp.pack(t); tmp.pack<unsigned>(mutex); tmp.pack<aid_t>(owner);
  in.reinject(tmp.buffer_out_, tmp.buffer_out_size_);
  tmp.buffer_out_size_ = 0;
  return deserialize_transition(Aid(aid), 0, in);
}
int main() {
  std::vector<TransitionPtr> ts;
  ts.emplace_back(mk_mutex(Transition::Type::MUTEX_ASYNC_LOCK, 1, 0, 1));
  ts.emplace_back(mk_mutex(Transition::Type::MUTEX_ASYNC_LOCK, 2, 0, 1));
  ts.emplace_back(mk_mutex(Transition::Type::MUTEX_ASYNC_LOCK, 3, 1, 3));
  ts.emplace_back(mk_mutex(Transition::Type::MUTEX_WAIT, 1, 0, 1));
  ts.emplace_back(mk_mutex(Transition::Type::MUTEX_UNLOCK, 1, 0, 1));
  ts.emplace_back(mk_mutex(Transition::Type::MUTEX_WAIT, 2, 0, 2));
  odpor::Execution ex;
  for (auto& t : ts) { ex.push_transition(t); }
  for (unsigned i = 0; i < ts.size(); i++) printf("%u: actor %d %s\n", i, ts[i]->aid_.c_val(), ts[i]->to_string(true).c_str());
  for (unsigned i = 0; i < ts.size(); i++) for (unsigned j = i + 1; j < ts.size(); j++)
    printf("dep(%u,%u)=%d/%d hb=%d\n", i, j, ts[i]->depends(ts[j].get()), ts[j]->depends(ts[i].get()), ex.happens_before(i, j));
  for (unsigned i = 0; i < ts.size(); i++) { printf("races of %u:", i); for (auto h : ex.get_racing_events_of(i)) printf(" %u", h); printf("\n"); }
}
