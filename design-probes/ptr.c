#include <pthread.h>
#include <stdio.h>
pthread_mutex_t m;
void* other(void* a) { int r = pthread_mutex_trylock(&m); fprintf(stderr, "other trylock -> %d (0 means acquired)\n", r); if (r == 0) pthread_mutex_unlock(&m); return 0; }
int main() {
  pthread_mutexattr_t at; pthread_mutexattr_init(&at); pthread_mutexattr_settype(&at, PTHREAD_MUTEX_RECURSIVE); pthread_mutex_init(&m, &at);
  int r1 = pthread_mutex_trylock(&m), r2 = pthread_mutex_lock(&m); pthread_mutex_unlock(&m);
  fprintf(stderr, "main: trylock=%d lock=%d, unlocked once; still holding one level\n", r1, r2);
  pthread_t t; pthread_create(&t, 0, other, 0); pthread_join(t, 0);
  pthread_mutex_unlock(&m);
  return 0;
}
