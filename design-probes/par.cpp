#include <simgrid/s4u.hpp>
namespace sg4 = simgrid::s4u;
XBT_LOG_NEW_DEFAULT_CATEGORY(t, "t");
int main(int argc, char** argv) {
  sg4::Engine e(&argc, argv);
  auto* z = e.get_netzone_root()->add_netzone_full("z");
  std::vector<sg4::Host*> hs;
  for (int i = 0; i < 4; i++) hs.push_back(z->add_host("h" + std::to_string(i), 1e9));
  auto* l = z->add_link("l", 1e8)->set_latency(1e-4);
  for (int i = 0; i < 4; i++) for (int j = i + 1; j < 4; j++) z->add_route(hs[i], hs[j], {l});
  z->seal();
  auto m = sg4::Mutex::create();
  auto sem = sg4::Semaphore::create(2);
  for (int i = 0; i < 8; i++) {
    hs[i % 4]->add_actor("a" + std::to_string(i), [m, sem, i]() {
      auto* mb = sg4::Mailbox::by_name("mb" + std::to_string(i / 2));
      for (int k = 0; k < 20; k++) {
        m->lock(); sg4::this_actor::sleep_for(0.001 * (i + 1)); m->unlock();
        sem->acquire(); sg4::this_actor::execute(1e6 * (i + 1)); sem->release();
        if (i % 2 == 0) mb->put(new int(k * 100 + i), 1000 * (k + 1));
        else { int* p = mb->get<int>(); xbt_assert(*p == k * 100 + i - 1); delete p; }
      }
      XBT_INFO("done at %f", sg4::Engine::get_clock());
    });
  }
  e.run();
  XBT_INFO("end %f", sg4::Engine::get_clock());
}
