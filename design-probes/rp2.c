#include <mpi.h>
#include <stdio.h>
#include <stdlib.h>
int main(int argc, char** argv) {
  MPI_Init(&argc, &argv);
  int r, n; MPI_Comm_rank(MPI_COMM_WORLD, &r); MPI_Comm_size(MPI_COMM_WORLD, &n);
  int N = 200000; int* a = calloc(N, sizeof(int)); int* b = calloc(N, sizeof(int)); int* cnts = calloc(n, sizeof(int)); int* dsp = calloc(n, sizeof(int));
  for (int i = 0; i < n; i++) { cnts[i] = 100 * (i + 1); dsp[i] = i ? dsp[i - 1] + cnts[i - 1] : 0; }
  MPI_Request rq[4];
  for (int it = 0; it < 2; it++) {
    int right = (r + 1) % n, left = (r + n - 1) % n;
    MPI_Irecv(b, 70000, MPI_INT, left, 3, MPI_COMM_WORLD, &rq[0]); MPI_Isend(a, 70000, MPI_INT, right, 3, MPI_COMM_WORLD, &rq[1]); MPI_Waitall(2, rq, MPI_STATUSES_IGNORE);
    MPI_Irecv(b, 10, MPI_INT, left, 4, MPI_COMM_WORLD, &rq[0]); MPI_Send(a, 10, MPI_INT, right, 4, MPI_COMM_WORLD); MPI_Wait(&rq[0], MPI_STATUS_IGNORE);
    MPI_Reduce(a, b, 3000, MPI_INT, MPI_SUM, it % n, MPI_COMM_WORLD);
    MPI_Allgather(a, 500, MPI_INT, b, 500, MPI_INT, MPI_COMM_WORLD);
    MPI_Alltoall(a, 400, MPI_INT, b, 400, MPI_INT, MPI_COMM_WORLD);
    MPI_Gather(a, 300, MPI_INT, b, 300, MPI_INT, 1 % n, MPI_COMM_WORLD);
    MPI_Scatter(a, 200, MPI_INT, b, 200, MPI_INT, 0, MPI_COMM_WORLD);
    MPI_Allgatherv(a, cnts[r], MPI_INT, b, cnts, dsp, MPI_INT, MPI_COMM_WORLD);
    MPI_Reduce_scatter(a, b, cnts, MPI_INT, MPI_SUM, MPI_COMM_WORLD);
    { int* rc = calloc(n, sizeof(int)); int* rd = calloc(n, sizeof(int)); for (int i = 0; i < n; i++) { rc[i] = cnts[r]; rd[i] = i * cnts[r]; } MPI_Alltoallv(a, cnts, dsp, MPI_INT, b, rc, rd, MPI_INT, MPI_COMM_WORLD); free(rc); free(rd); }
    MPI_Gatherv(a, cnts[r], MPI_INT, b, cnts, dsp, MPI_INT, 0, MPI_COMM_WORLD);
    MPI_Scatterv(a, cnts, dsp, MPI_INT, b, cnts[r], MPI_INT, 0, MPI_COMM_WORLD);
    MPI_Sendrecv(a, 5000, MPI_INT, right, 8, b, 5000, MPI_INT, left, 8, MPI_COMM_WORLD, MPI_STATUS_IGNORE);
    MPI_Barrier(MPI_COMM_WORLD);
  }
  printf("FINISH rank %d at %.9f\n", r, MPI_Wtime());
  MPI_Finalize();
  return 0;
}
