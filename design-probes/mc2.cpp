#include <simgrid/s4u.hpp>
#include <simgrid/modelchecker.h>
namespace sg4 = simgrid::s4u;
XBT_LOG_NEW_DEFAULT_CATEGORY(t, "t");
int main(int argc, char** argv) {
  sg4::Engine e(&argc, argv);
  auto* z = e.get_netzone_root()->add_netzone_full("z");
  auto* h = z->add_host("h", 1e9);
  z->seal();
  std::string kind = argc > 1 ? argv[1] : "mq";
  if (kind == "mq") {
    auto* q = sg4::MessageQueue::by_name("q");
    h->add_actor("p", [q]() { q->put(new int(1)); q->put(new int(2)); });
    h->add_actor("c", [q]() { int* a = q->get<int>(); int* b = q->get<int>(); xbt_assert(*a == 1 && *b == 2); });
  } else if (kind == "iprobe") {
    auto* mb = sg4::Mailbox::by_name("m");
    h->add_actor("p", [mb]() { mb->put(new int(1), 10); });
    h->add_actor("c", [mb]() { while (not mb->listen()) sg4::this_actor::yield(); delete mb->get<int>(); });
  } else if (kind == "waitany") {
    auto* mb = sg4::Mailbox::by_name("m"); auto* mb2 = sg4::Mailbox::by_name("m2");
    h->add_actor("p", [mb, mb2]() { mb->put(new int(1), 10); mb2->put(new int(2), 10); });
    h->add_actor("c", [mb, mb2]() { int *a, *b; sg4::ActivitySet s; s.push(mb->get_async<int>(&a)); s.push(mb2->get_async<int>(&b)); s.wait_any(); s.wait_any(); });
  } else if (kind == "join") {
    auto a = h->add_actor("a", []() { sg4::this_actor::sleep_for(1); });
    h->add_actor("b", [a]() { a->join(); });
  } else if (kind == "exec") {
    h->add_actor("a", []() { sg4::this_actor::execute(1e9); });
    h->add_actor("b", []() { sg4::this_actor::execute(1e9); });
  } else if (kind == "semto") {
    auto s = sg4::Semaphore::create(0);
    h->add_actor("a", [s]() { bool to = s->acquire_timeout(1.0); (void)to; });
    h->add_actor("b", [s]() { s->release(); });
  } else if (kind == "kill") {
    auto a = h->add_actor("a", []() { sg4::this_actor::sleep_for(10); });
    h->add_actor("b", [a]() { a->kill(); });
  } else if (kind == "create") {
    h->add_actor("a", [h]() { auto c = h->add_actor("child", []() { sg4::this_actor::yield(); }); c->join(); });
  } else if (kind == "random") {
    h->add_actor("a", []() { int x = MC_random(0, 3); MC_assert(x < 4); });
  } else if (kind == "testany") {
    auto* mb = sg4::Mailbox::by_name("m");
    h->add_actor("p", [mb]() { mb->put(new int(1), 10); });
    h->add_actor("c", [mb]() { int* a; sg4::ActivitySet s; s.push(mb->get_async<int>(&a)); while (not s.test_any()) sg4::this_actor::yield(); });
  }
  e.run();
}
