#include <simgrid/s4u.hpp>
#include <simgrid/plugins/energy.h>
namespace sg4 = simgrid::s4u;
XBT_LOG_NEW_DEFAULT_CATEGORY(t, "t");
int main(int argc, char** argv) {
  sg_host_energy_plugin_init();
  sg4::Engine e(&argc, argv);
  auto* z = e.get_netzone_root()->add_netzone_full("z");
  auto* h = z->add_host("h", std::vector<double>{1e9, 5e8})->set_core_count(4);
  h->set_property("wattage_per_state", "100.0:120.0:200.0, 93.0:110.0:170.0");
  h->set_property("wattage_off", "10");
  auto* o = z->add_host("o", 1e9); o->set_property("wattage_per_state", "1:1:1");
  z->seal();
  auto E = [h]() { return sg_host_get_consumed_energy(h); };
  o->add_actor("ctl", [h, E]() {
    sg4::this_actor::sleep_for(2); XBT_INFO("t=2 idle: E=%.6f expect 200", E());
    auto x = h->exec_async(3e9); /* 1 core busy for 3s: load .25 -> 120+.25*80=140W */
    sg4::this_actor::sleep_for(3); x->wait(); XBT_INFO("t=5: E=%.6f expect 200+420=620", E());
    h->set_pstate(1); std::vector<sg4::ExecPtr> xs; for (int i = 0; i < 6; i++) xs.push_back(h->exec_async(1e9)); /* 6 execs on 4 cores @5e8: total 6e9/(2e9)=3s, load 1 -> 170W */
    for (auto& a : xs) a->wait(); XBT_INFO("t=%g: E=%.6f expect 620+3*170=1130", sg4::Engine::get_clock(), E());
    h->turn_off(); sg4::this_actor::sleep_for(4); XBT_INFO("t=%g off 4s: E=%.6f expect 1130+40=1170", sg4::Engine::get_clock(), E());
    h->turn_on(); sg4::this_actor::sleep_for(1); XBT_INFO("t=%g on idle 1s pstate1: E=%.6f expect 1170+93=1263", sg4::Engine::get_clock(), E());
  });
  e.run();
}
