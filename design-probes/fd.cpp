#include <simgrid/s4u.hpp>
#include <cstdio>
namespace sg4 = simgrid::s4u;
int main(int argc, char** argv) {
  sg4::Engine e(&argc, argv);
  std::string kind = argv[1];
  sg4::NetZone* z = kind == "floyd" ? e.get_netzone_root()->add_netzone_floyd("z") : kind == "full" ? e.get_netzone_root()->add_netzone_full("z") : e.get_netzone_root()->add_netzone_dijkstra("z", kind == "dijkstracache");
  std::vector<sg4::Host*> h; for (int i = 0; i < 5; i++) h.push_back(z->add_host("h" + std::to_string(i), 1e9));
  auto L = [&](const char* n) { return z->add_link(n, 1e6)->set_latency(0.001); };
  // asymmetric: 0->1 (1 link), 1->2 (3 links), 0->3 (1), 3->2 (1), 2->0 (1) ; h4 only has outgoing 4->0
  z->add_route(h[0], h[1], {sg4::LinkInRoute(L("a"))}, false);
  z->add_route(h[1], h[2], {sg4::LinkInRoute(L("b1")), sg4::LinkInRoute(L("b2")), sg4::LinkInRoute(L("b3"))}, false);
  z->add_route(h[0], h[3], {sg4::LinkInRoute(L("c"))}, false);
  z->add_route(h[3], h[2], {sg4::LinkInRoute(L("d"))}, false);
  z->add_route(h[2], h[0], {sg4::LinkInRoute(L("e"))}, false);
  z->add_route(h[4], h[0], {sg4::LinkInRoute(L("f"))}, false);
  z->seal();
  for (auto* a : h) for (auto* b : h) { if (a == b || b == h[4]) continue;
    std::vector<sg4::Link*> links; double lat = 0;
    try { a->route_to(b, links, &lat); printf("%s->%s:", a->get_cname(), b->get_cname()); for (auto* l : links) printf(" %s", l->get_cname()); printf("\n"); }
    catch (const std::exception& ex) { printf("%s->%s: EXC %.60s\n", a->get_cname(), b->get_cname(), ex.what()); }
  }
}
