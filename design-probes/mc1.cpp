#include <simgrid/s4u.hpp>
#include <simgrid/modelchecker.h>
namespace sg4 = simgrid::s4u;
XBT_LOG_NEW_DEFAULT_CATEGORY(t, "t");
static int shared = 0;
int main(int argc, char** argv) {
  sg4::Engine e(&argc, argv);
  auto* z = e.get_netzone_root()->add_netzone_full("z");
  auto* h = z->add_host("h", 1e9);
  z->seal();
  auto m1 = sg4::Mutex::create();
  auto m2 = sg4::Mutex::create();
  std::string* log = new std::string;
  h->add_actor("a", [m1, m2, log]() { m1->lock(); *log += "a1"; m2->lock(); *log += "a2"; m2->unlock(); m1->unlock(); });
  h->add_actor("b", [m1, m2, log]() { m2->lock(); *log += "b2"; m1->lock(); *log += "b1"; m1->unlock(); m2->unlock(); });
  e.run();
  fprintf(stderr, "OUTCOME %s\n", log->c_str());
}
