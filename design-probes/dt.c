#include <mpi.h>
#include <stdio.h>
#include <stdlib.h>
#include <string.h>
static void show(const char* n, MPI_Datatype t, long exp_size, long exp_lb, long exp_ext) {
  int sz; MPI_Aint lb, ext; MPI_Type_size(t, &sz); MPI_Type_get_extent(t, &lb, &ext);
  printf("%-28s size=%d lb=%ld extent=%ld   expected size=%ld lb=%ld extent=%ld %s\n", n, sz, (long)lb, (long)ext, exp_size, exp_lb, exp_ext, (sz == exp_size && lb == exp_lb && ext == exp_ext) ? "" : "<== MISMATCH");
}
int main(int argc, char** argv) {
  MPI_Init(&argc, &argv);
  int r; MPI_Comm_rank(MPI_COMM_WORLD, &r);
  if (r == 0) {
    MPI_Datatype v, rs, vr, idx, hv, st, ib, c;
    MPI_Type_vector(3, 2, 5, MPI_INT, &v); show("vector(3,2,5,int)", v, 24, 0, (2 * 5 + 2) * 4);
    MPI_Type_create_resized(MPI_INT, 0, 12, &rs); show("resized(int,0,12)", rs, 4, 0, 12);
    MPI_Type_vector(3, 2, 5, rs, &vr); show("vector(3,2,5,resized12)", vr, 24, 0, ((3 - 1) * 5 + 2 - 1) * 12 + 12);
    MPI_Type_contiguous(3, rs, &c); show("contiguous(3,resized12)", c, 12, 0, 36);
    int bl[3] = {1, 2, 1}, ds[3] = {4, 0, 9}; MPI_Type_indexed(3, bl, ds, MPI_INT, &idx); show("indexed({1,2,1},{4,0,9})", idx, 16, 0, 40);
    MPI_Type_indexed(3, bl, ds, rs, &idx); show("indexed(..., resized12)", idx, 16, 0, 9 * 12 + 12);
    MPI_Type_create_hvector(2, 3, 100, MPI_DOUBLE, &hv); show("hvector(2,3,100,double)", hv, 48, 0, 100 + 24);
    int sbl[2] = {1, 3}; MPI_Aint sd[2] = {8, 0}; MPI_Datatype stt[2] = {MPI_DOUBLE, MPI_CHAR}; MPI_Type_create_struct(2, sbl, sd, stt, &st); show("struct({double@8},{3char@0})", st, 11, 0, 16);
    int ibd[2] = {3, 0}; MPI_Type_create_indexed_block(2, 2, ibd, MPI_INT, &ib); show("indexed_block(2,2,{3,0})", ib, 16, 0, 20);
    /* data movement with vector of resized: pack and check */
    MPI_Type_commit(&vr); int src[64], dst[64]; for (int i = 0; i < 64; i++) { src[i] = i; dst[i] = -1; }
    int pos = 0; char pk[512]; MPI_Pack(src, 1, vr, pk, 512, &pos, MPI_COMM_WORLD); printf("packed %d bytes:", pos); for (int i = 0; i < pos / 4; i++) printf(" %d", ((int*)pk)[i]); printf("   expected: 0 3 15 18 30 33\n");
    MPI_Sendrecv(src, 1, vr, 0, 1, dst, 1, vr, 0, 1, MPI_COMM_SELF, MPI_STATUS_IGNORE); printf("sendrecv dst touched:"); for (int i = 0; i < 64; i++) if (dst[i] != -1) printf(" [%d]=%d", i, dst[i]); printf("\n");
  }
  MPI_Finalize();
  return 0;
}
