"""Prototype reference semantics for S4U synchronisation programs (two-step request/wait model).
program: list of actors; each actor = list of ops; ops:
 ('lock',m) ('unlock',m) ('trylock',m) ('acquire',s) ('release',s) ('put',mb,val) ('get',mb) ('obs_m',m) ...
Observation model: per-object counters; lock/acquire/get record the per-object sequence number they observed."""
import sys
from functools import lru_cache
def explore(prog, sem_init):
    nact=len(prog)
    # state: (pcs, phases, mutex owners/queues, sem values/queues, mailbox queues, obs, counters)
    init=(tuple(0 for _ in prog), tuple(0 for _ in prog), (), (), (), tuple(() for _ in prog), ())
    def get(d,k,default): 
        for kk,v in d:
            if kk==k: return v
        return default
    def put(d,k,v):
        return tuple(sorted([(kk,vv) for kk,vv in d if kk!=k]+[(k,v)]))
    seen=set(); terminals=set(); deadlocks=set(); stack=[init]; nstates=0
    while stack:
        st=stack.pop()
        if st in seen: continue
        seen.add(st); nstates+=1
        pcs,ph,mut,sem,mbx,obs,cnt=st
        succ=[]
        for a in range(nact):
            if pcs[a]>=len(prog[a]): continue
            op=prog[a][pcs[a]]
            def adv(pcs=pcs,ph=ph,a=a): 
                p=list(pcs); p[a]+=1; q=list(ph); q[a]=0; return tuple(p),tuple(q)
            def phase(ph=ph,a=a):
                q=list(ph); q[a]=1; return tuple(q)
            k=op[0]
            if k=='lock':
                owner,queue=get(mut,op[1],(None,()))
                if ph[a]==0: # async_lock: always enabled
                    if owner is None: nm=put(mut,op[1],(a,queue))
                    else: nm=put(mut,op[1],(owner,queue+(a,)))
                    succ.append((pcs,phase(),nm,sem,mbx,obs,cnt))
                else: # wait: enabled iff owner==a
                    if owner==a:
                        c=get(cnt,('m',op[1]),0); o=list(obs); o[a]=o[a]+(('m',op[1],c),)
                        np,nq=adv(); succ.append((np,nq,mut,sem,mbx,tuple(o),put(cnt,('m',op[1]),c+1)))
            elif k=='unlock':
                owner,queue=get(mut,op[1],(None,()))
                assert owner==a
                nm=put(mut,op[1],(queue[0],queue[1:])) if queue else put(mut,op[1],(None,()))
                np,nq=adv(); succ.append((np,nq,nm,sem,mbx,obs,cnt))
            elif k=='acquire':
                val,queue,granted=get(sem,op[1],(sem_init.get(op[1],0),(),()))
                if ph[a]==0:
                    if val>0: ns=put(sem,op[1],(val-1,queue,granted+(a,)))
                    else: ns=put(sem,op[1],(val,queue+(a,),granted))
                    succ.append((pcs,phase(),mut,ns,mbx,obs,cnt))
                else:
                    if a in granted:
                        g=tuple(x for x in granted if x!=a)
                        c=get(cnt,('s',op[1]),0); o=list(obs); o[a]=o[a]+(('s',op[1],c),)
                        np,nq=adv(); succ.append((np,nq,mut,put(sem,op[1],(val,queue,g)),mbx,tuple(o),put(cnt,('s',op[1]),c+1)))
            elif k=='release':
                val,queue,granted=get(sem,op[1],(sem_init.get(op[1],0),(),()))
                if queue: ns=put(sem,op[1],(val,queue[1:],granted+(queue[0],)))
                else: ns=put(sem,op[1],(val+1,queue,granted))
                np,nq=adv(); succ.append((np,nq,mut,ns,mbx,obs,cnt))
            elif k=='put':   # blocking put = isend + wait(enabled when matched)
                sends,recvs,matched=get(mbx,op[1],((),(),()))
                if ph[a]==0:
                    if recvs: r=recvs[0]; nb=(sends,recvs[1:],matched+((a,r,op[2]),))
                    else: nb=(sends+((a,op[2]),),recvs,matched)
                    succ.append((pcs,phase(),mut,sem,put(mbx,op[1],nb),obs,cnt))
                else:
                    if any(s==a for s,r,v in matched):   # wait is enabled once matched; sender side leaves the pair for the receiver
                        np,nq=adv(); nbm=tuple((s if s!=a else -1-a,r,v) for s,r,v in matched)
                        succ.append((np,nq,mut,sem,put(mbx,op[1],(sends,recvs,nbm)),obs,cnt))
            elif k=='get':
                sends,recvs,matched=get(mbx,op[1],((),(),()))
                if ph[a]==0:
                    if sends: (s,v)=sends[0]; nb=(sends[1:],recvs,matched+((s,a,v),))
                    else: nb=(sends,recvs+(a,),matched)
                    succ.append((pcs,phase(),mut,sem,put(mbx,op[1],nb),obs,cnt))
                else:
                    mm=[x for x in matched if x[1]==a]
                    if mm:
                        s,r,v=mm[0]; o=list(obs); o[a]=o[a]+(('r',op[1],v),)
                        nbm=tuple((s2,(r2 if (s2,r2,v2)!=(s,r,v) else -1-a),v2) for s2,r2,v2 in matched)
                        np,nq=adv(); succ.append((np,nq,mut,sem,put(mbx,op[1],(sends,recvs,nbm)),tuple(o),cnt))
        if not succ:
            if all(pcs[a]>=len(prog[a]) for a in range(nact)): terminals.add(obs)
            else: deadlocks.add((pcs,ph))
        stack.extend(succ)
    return terminals,deadlocks,nstates
if __name__=='__main__':
    p0=[[('lock',0),('unlock',0)] for _ in range(3)]
    p1=[[('put','mb',0)],[('put','mb',1)],[('get','mb'),('get','mb')]]
    p2=[[('acquire',0),('release',0),('lock',0),('unlock',0)] for _ in range(3)]
    p3=[[('lock',0),('lock',1),('unlock',1),('unlock',0)],[('lock',1),('lock',0),('unlock',0),('unlock',1)]]
    for name,p in (('p0',p0),('p1',p1),('p2',p2),('p3-deadlock',p3)):
        t,d,n=explore(p,{0:1})
        print(name,'terminal outcomes',len(t),'deadlock configs',len(d),'states',n)
