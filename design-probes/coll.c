#include <mpi.h>
#include <stdio.h>
#include <stdlib.h>
#include <string.h>
int main(int argc, char** argv) {
  MPI_Init(&argc, &argv);
  int r, n; MPI_Comm_rank(MPI_COMM_WORLD, &r); MPI_Comm_size(MPI_COMM_WORLD, &n);
  int counts[] = {0, 1, 2, n - 1, n, n + 1, 1000};
  int bad = 0, cases = 0;
  for (int ci = 0; ci < 7; ci++) {
    int c = counts[ci]; if (c < 0) continue; if (getenv("ONLY") && atoi(getenv("ONLY")) != ci) continue;
    int* in = malloc(sizeof(int) * (c + 1)); int* out = malloc(sizeof(int) * (c + 1));
    /* allreduce SUM */
    for (int i = 0; i < c; i++) { in[i] = (r + 1) * (i + 3); out[i] = -777; }
    MPI_Allreduce(in, out, c, MPI_INT, MPI_SUM, MPI_COMM_WORLD);
    for (int i = 0; i < c; i++) { int e = (i + 3) * n * (n + 1) / 2; if (out[i] != e) { bad++; if (bad < 4) printf("VIOL allreduce r=%d c=%d i=%d got %d exp %d\n", r, c, i, out[i], e); } }
    cases++;
    /* bcast from every root */
    for (int root = 0; root < n; root++) {
      for (int i = 0; i < c; i++) in[i] = (r == root) ? root * 1000 + i : -5;
      MPI_Bcast(in, c, MPI_INT, root, MPI_COMM_WORLD);
      for (int i = 0; i < c; i++) if (in[i] != root * 1000 + i) { bad++; if (bad < 4) printf("VIOL bcast r=%d root=%d c=%d i=%d got %d\n", r, root, c, i, in[i]); }
      cases++;
    }
    /* reduce to every root (MAX) */
    for (int root = 0; root < n; root++) {
      for (int i = 0; i < c; i++) { in[i] = (r * 7 + i * 3) % 11; out[i] = -777; }
      MPI_Reduce(in, out, c, MPI_INT, MPI_MAX, root, MPI_COMM_WORLD);
      if (r == root) for (int i = 0; i < c; i++) { int e = -1; for (int q = 0; q < n; q++) { int v = (q * 7 + i * 3) % 11; if (v > e) e = v; } if (out[i] != e) { bad++; if (bad < 4) printf("VIOL reduce r=%d root=%d c=%d i=%d got %d exp %d\n", r, root, c, i, out[i], e); } }
      cases++;
    }
    free(in); free(out);
  }
  printf("DONE r=%d cases=%d bad=%d\n", r, cases, bad);
  MPI_Finalize();
  return 0;
}
