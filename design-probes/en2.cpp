#include <simgrid/s4u.hpp>
#include <simgrid/plugins/energy.h>
namespace sg4 = simgrid::s4u;
XBT_LOG_NEW_DEFAULT_CATEGORY(t, "t");
int main(int argc, char** argv) {
  sg_host_energy_plugin_init();
  sg4::Engine e(&argc, argv);
  auto* z = e.get_netzone_root()->add_netzone_full("z");
  auto* h = z->add_host("h", std::vector<double>{1e9, 5e8})->set_core_count(4);
  h->set_property("wattage_per_state", "100.0:120.0:200.0, 93.0:110.0:170.0");
  h->set_property("wattage_off", "10");
  z->seal();
  auto E = [h]() { return sg_host_get_consumed_energy(h); };
  h->add_actor("w", [h, E]() {
    sg4::this_actor::sleep_for(2); XBT_INFO("t=2 idle: E=%.6f expect 200", E());
    sg4::this_actor::execute(3e9); XBT_INFO("t=5: E=%.6f expect 200+3*140=620", E());
    auto x = sg4::this_actor::exec_async(2e9); sg4::this_actor::sleep_for(1); XBT_INFO("t=6 mid-exec: E=%.6f expect 760", E()); x->wait(); XBT_INFO("t=7: E=%.6f expect 900", E());
    sg4::this_actor::sleep_for(1); XBT_INFO("t=8: E=%.6f expect 1000", E());
  });
  e.run();
}
