#include <simgrid/s4u.hpp>
#include <cstdio>
namespace sg4 = simgrid::s4u;
static sg4::NetZone* mk(sg4::NetZone* parent, const std::string& kind, const std::string& name) {
  if (kind == "floyd") return parent->add_netzone_floyd(name);
  if (kind == "dijkstra") return parent->add_netzone_dijkstra(name, false);
  if (kind == "dijkstracache") return parent->add_netzone_dijkstra(name, true);
  if (kind == "star") return parent->add_netzone_star(name);
  return parent->add_netzone_full(name);
}
int main(int argc, char** argv) {
  sg4::Engine e(&argc, argv);
  std::string rootkind = argv[1], childkind = argv[2];
  auto* root = mk(e.get_netzone_root(), rootkind, "root");
  std::vector<sg4::NetZone*> zs; std::vector<sg4::Host*> hs;
  for (int zi = 0; zi < 3; zi++) {
    auto* z = mk(root, childkind, "z" + std::to_string(zi));
    std::vector<sg4::Host*> zh;
    for (int i = 0; i < 3; i++) zh.push_back(z->add_host("h" + std::to_string(zi) + "_" + std::to_string(i), 1e9));
    if (childkind == "star") { for (auto* h : zh) { auto* l = z->add_link("l_" + h->get_name(), 1e6)->set_latency(0.001); z->add_route(h, nullptr, {sg4::LinkInRoute(l)}, true); } }
    else for (int i = 0; i < 3; i++) { auto* l = z->add_link("l" + std::to_string(zi) + "_" + std::to_string(i), 1e6)->set_latency(0.001 * (i + 1)); z->add_route(zh[i], zh[(i + 1) % 3], {l}); }
    z->set_gateway(zh[zi % 3]->get_netpoint());
    z->seal(); zs.push_back(z); for (auto* h : zh) hs.push_back(h);
  }
  // root: chain z0 - z1 - z2 (no direct z0-z2 route unless full)
  auto* b01 = root->add_link("b01", 1e7)->set_latency(0.01); auto* b12 = root->add_link("b12", 1e7)->set_latency(0.02);
  root->add_route(zs[0], zs[1], {b01}); root->add_route(zs[1], zs[2], {b12});
  if (rootkind == "full") { auto* b02 = root->add_link("b02", 1e7)->set_latency(0.03); root->add_route(zs[0], zs[2], {b02}); }
  root->seal();
  for (auto* a : hs) for (auto* b : hs) { if (a == b) continue;
    std::vector<sg4::Link*> links; double lat = 0;
    try { a->route_to(b, links, &lat); printf("%s->%s lat=%g:", a->get_cname(), b->get_cname(), lat); for (auto* l : links) printf(" %s", l->get_cname()); printf("\n"); }
    catch (const std::exception& ex) { printf("%s->%s: EXC %.70s\n", a->get_cname(), b->get_cname(), ex.what()); }
    fflush(stdout);
  }
}
