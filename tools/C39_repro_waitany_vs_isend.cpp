// C39 reproducer 2: wait_any over two receives vs. the isend that matches the *other* receive.
// Build: L=/verif/.build/hooks; g++ -std=c++17 -O1 -I/repo/include -I$L/include X.cpp -o X -L$L/lib -lsimgrid -Wl,-rpath,$L/lib
// Run:   $L/bin/simgrid-mc --cfg=model-check/reduction:<none|dpor|sdpor|odpor> ./X
// Observed on the unpatched tree: reduction:none -> PROPERTY NOT VALID (3 traces); dpor/sdpor/odpor -> no error, 1 trace (the 2nd isend is never moved before the wait_any)
#include <simgrid/modelchecker.h>
#include <simgrid/s4u.hpp>
#include <simgrid/s4u/ActivitySet.hpp>
namespace sg4 = simgrid::s4u;
int main(int argc, char** argv)
{
  sg4::Engine e(&argc, argv);
  auto* z = e.get_netzone_root()->add_netzone_full("z");
  auto* h = z->add_host("h", 1e9);
  z->seal();
  auto* mb0 = sg4::Mailbox::by_name("mb0");
  auto* mb1 = sg4::Mailbox::by_name("mb1");
  h->add_actor("receiver", [mb0, mb1]() { // pid 1
    long *b1 = nullptr, *b0 = nullptr;
    auto c1 = mb1->get_async<long>(&b1); // first in the set
    auto c0 = mb0->get_async<long>(&b0);
    sg4::ActivitySet set;
    set.push(c1);
    set.push(c0);
    auto first = set.wait_any();
    MC_assert(first.get() != c1.get()); // fails when both messages were posted before the wait_any
    set.wait_all();
  });
  h->add_actor("sender", [mb0, mb1]() { // pid 2
    auto s0 = mb0->put_async(new long(0), 8);
    auto s1 = mb1->put_async(new long(1), 8);
    s0->wait();
    s1->wait();
  });
  e.run();
  return 0;
}
