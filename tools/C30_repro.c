/* minimal reproducers for the C30 findings; mpirun -np 1 */
#include <mpi.h>
#include <stdio.h>
#include <string.h>
static void show(const char* name, MPI_Datatype t)
{
  MPI_Aint lb, ext;
  int size;
  MPI_Type_commit(&t);
  MPI_Type_size(t, &size);
  MPI_Type_get_extent(t, &lb, &ext);
  printf("%-44s size=%d lb=%ld extent=%ld", name, size, (long)lb, (long)ext);
  /* pack 2 elements out of an int array 0,1,2,...: shows which ints the type selects */
  int src[64], dst[64], pos = 0;
  for (int i = 0; i < 64; i++)
    src[i] = i;
  memset(dst, -1, sizeof dst);
  MPI_Pack(src, 2, t, dst, sizeof dst, &pos, MPI_COMM_WORLD);
  printf("  pack(count=2) ->");
  for (int i = 0; i < pos / 4; i++)
    printf(" %d", dst[i]);
  printf("\n");
}
int main(int argc, char** argv)
{
  MPI_Init(&argc, &argv);
  MPI_Datatype t, u;
  int bl2[2] = {1, 1}, d2[2] = {1, 3};
  MPI_Type_indexed(2, bl2, d2, MPI_INT, &t);
  show("indexed(2,{1,1},{1,3},INT)      [want 1 3 4 6]", t); /* lb=4 ub=16 extent=12=3 ints: second element = ints 4,6 */
  MPI_Aint ad[2]     = {8, 0};
  MPI_Datatype ty[2] = {MPI_INT, MPI_INT};
  MPI_Type_create_struct(2, bl2, ad, ty, &t);
  show("struct({1,1},{8,0},{INT,INT})   [want 2 0 5 3]", t); /* extent 12 */
  MPI_Type_create_resized(MPI_INT, 4, 8, &t);
  show("resized(INT,lb=4,extent=8)      [want 0 2]", t);
  MPI_Type_create_resized(MPI_INT, 0, 8, &u);
  MPI_Type_vector(2, 1, 2, u, &t);
  show("vector(2,1,2,resized(INT,0,8))  [want 0 4 6 10]", t); /* extent = (1*2+1-1)*8+8 = 24 = 6 ints */
  int one = 1, two = 2, zero = 0;
  MPI_Type_indexed(1, &one, &one, MPI_INT, &u); /* one int at displacement 1: lb=4 */
  MPI_Type_indexed(1, &two, &zero, u, &t);
  show("indexed(1,{2},{0},indexed(1,{1},{1},INT)) [want lb=4 extent=8]", t);
  int bl0[2]    = {0, 1};
  MPI_Aint a0[2] = {0, 8};
  MPI_Type_create_hindexed(2, bl0, a0, MPI_INT, &t);
  show("hindexed(2,{0,1},{0,8},INT)     [want lb=8 extent=4]", t);
  int sizes[2] = {2, 2}, subs[2] = {2, 2}, starts[2] = {0, 0};
  MPI_Type_create_subarray(2, sizes, subs, starts, MPI_ORDER_C, MPI_INT, &t);
  show("subarray(2x2 of 2x2,INT)        [want extent=16, 0..7]", t);
  int s1 = 4, b1 = 2, st1 = 1;
  MPI_Type_create_subarray(1, &s1, &b1, &st1, MPI_ORDER_C, MPI_INT, &t);
  show("subarray(1,{4},{2},{1},INT)     [want lb=0 extent=16, 1 2 5 6]", t);
  MPI_Type_create_resized(MPI_INT, 0, 8, &u);
  MPI_Type_create_subarray(1, &s1, &b1, &st1, MPI_ORDER_C, u, &t);
  show("subarray(1,{4},{2},{1},resized(INT,0,8)) [want extent=32, 2 4 10 12]", t);
  /* empty type map */
  MPI_Type_vector(2, 0, 1, MPI_LONG_LONG, &t);
  MPI_Type_commit(&t);
  char in[8], out[8];
  int pos = 0;
  printf("unpacking 1 element of vector(2,0,1,LONG_LONG) (size 0) ...\n");
  fflush(stdout);
  MPI_Unpack(in, 0, &pos, out, 1, t, MPI_COMM_WORLD);
  printf("survived\n");
  MPI_Finalize();
  return 0;
}
