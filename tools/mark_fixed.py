#!/usr/bin/env python3
"""usage: mark_fixed.py <ID> <key-or-glob-substring> <commit>   flips matching open entries of known_findings.d/<ID>.json to fixed"""
import json, sys
pid, sub, commit = sys.argv[1:4]
p = '/verif/known_findings.d/%s.json' % pid
d = json.load(open(p))
n = 0
for f in d['findings']:
    k = f.get('key') or f.get('key_glob')
    if f.get('status') == 'open' and sub in k:
        f['status'] = 'fixed'; f['commit'] = commit
        f['record'] = 'fixed: property=%s %s %s' % (pid, commit, f.get('what', k))
        n += 1
json.dump(d, open(p, 'w'), indent=1)
print(pid, sub, '->', n, 'entries fixed')
