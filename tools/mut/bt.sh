#!/bin/bash
# usage: bt.sh <worktree> [build|test|all]   (default all)
# Builds the worktree (out-of-tree at <worktree>/_build, ccache-accelerated, no LTO, java on) and runs
# the 104 pinned tests of the repository. Prints a one-line summary at the end.
WT=$(readlink -f $1); MODE=${2:-all}
export CCACHE_DIR=/tmp/mut/ccache CCACHE_BASEDIR=$WT CCACHE_NOHASHDIR=1 CCACHE_MAXSIZE=20G
if [ "$MODE" != test ]; then
  if [ ! -f $WT/_build/build.ninja ]; then
    cmake -G Ninja -S $WT -B $WT/_build -Denable_lto=OFF -Denable_java=ON -Denable_python=OFF -Denable_fortran=OFF \
      -Denable_documentation=OFF -Denable_model-checking=ON -Denable_smpi=ON -Denable_compile_warnings=OFF -Denable_debug=ON \
      -Denable_compile_optimizations=OFF -DCMAKE_C_COMPILER_LAUNCHER=ccache -DCMAKE_CXX_COMPILER_LAUNCHER=ccache > $WT/_build.cmake.log 2>&1 || { echo "CMAKE FAILED (see $WT/_build.cmake.log)"; exit 2; }
  fi
  nice ninja -C $WT/_build -j ${BT_JOBS:-8} > $WT/_build.ninja.log 2>&1 || { tail -40 $WT/_build.ninja.log; echo "BUILD FAILED"; exit 2; }
  nice ninja -C $WT/_build -j ${BT_JOBS:-8} s4u-task-dispatch graphicator pt2pt-pingpong smpireplaymain smpi_replay >> $WT/_build.ninja.log 2>&1 || { tail -40 $WT/_build.ninja.log; echo "BUILD(tests) FAILED"; exit 2; }
  echo "BUILD OK"
fi
if [ "$MODE" != build ]; then
  ctest --test-dir $WT/_build -j ${BT_JOBS:-8} --timeout 900 -R "$(cat /tmp/mut/tools/pinned_regex.txt)" > $WT/_ctest.log 2>&1
  rc=$?
  grep -E "tests passed|tests failed|\*\*\*" $WT/_ctest.log | head -30
  if [ $rc -ne 0 ]; then
    # timing-sensitive tests (tesh-self-*) fail under load: re-run the failed ones alone, serially, once
    cp $WT/_build/Testing/Temporary/LastTest.log $WT/_ctest.firstfail.log 2>/dev/null
    echo "re-running failed tests serially:"
    ctest --test-dir $WT/_build -j 1 --timeout 900 --rerun-failed > $WT/_ctest.rerun.log 2>&1
    rc=$?
    grep -E "Passed|tests passed|tests failed|\*\*\*" $WT/_ctest.rerun.log | head -30
    [ $rc -eq 0 ] && echo "PINNED SUITE: PASS (after a serial re-run of the tests listed above, which failed in the parallel run; first failure output in $WT/_ctest.firstfail.log)"
  else
    echo "PINNED SUITE: PASS"
  fi
  [ $rc -ne 0 ] && echo "PINNED SUITE: FAIL (see $WT/_ctest.log, $WT/_ctest.rerun.log)"
  exit $rc
fi
