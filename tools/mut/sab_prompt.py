#!/usr/bin/env python3
"""usage: sab_prompt.py <ID>  -> creates /tmp/mut/s-<ID> (worktree of /repo HEAD) and prints the task message for a fault-seeding agent"""
import json, subprocess, sys, os
pid = sys.argv[1]
p = [json.loads(l) for l in open('/verif/properties.jsonl') if json.loads(l)['id'] == pid][0]
wt = '/tmp/mut/s-%s' % pid
if not os.path.isdir(wt):
    subprocess.check_call(['/tmp/mut/tools/mkwt.sh', 's-%s' % pid], stdout=subprocess.DEVNULL)
print("""You are a fault-seeding agent. Read /tmp/mut/tools/SABOTEUR.md first and follow it exactly (it is your complete brief; never read or list anything under /verif; never touch /repo).

Your scratch git worktree of SimGrid: %s
The property to break:
  Title: %s
  Statement: %s
  Scope (what "for all" ranges over): %s
  Code it is anchored in (starting points for reading): %s

Deliver two verified changes as the brief says (patch1.diff/patch2.diff, demo1/demo2 with run_demo<k>.sh <build-dir>, notes<k>.md under %s/seeded/). Use BT_JOBS=6 (the machine is heavily shared; a first build takes 10-25 minutes, later incremental builds a few minutes). Prefer changes that each need a *different* kind of trigger (e.g. one needing a tie or particular interleaving, one needing a multi-step history or a boundary input).""" % (
    wt, p['title'], p['statement'], p['quantifier']['text'], ', '.join(p['anchors']['files']), wt))
