#!/usr/bin/env python3
import json, os
S = json.load(open('/verif/tools/mut/seed_summaries.json'))
for d, (summary, needs) in S.items():
    p = '/verif/seeded/%s/meta.json' % d
    if os.path.exists(p):
        m = json.load(open(p))
        m.setdefault('summary', summary)
        if m.get('needs_to_manifest', 'see notes.md') == 'see notes.md':
            m['needs_to_manifest'] = needs
        json.dump(m, open(p, 'w'), indent=1)
