#!/bin/bash
# usage: mkwt.sh <name>   -> creates a scratch git worktree of /repo HEAD at /tmp/mut/<name>
set -e
git -C /repo worktree add --detach /tmp/mut/$1 HEAD >/dev/null 2>&1
echo /tmp/mut/$1
