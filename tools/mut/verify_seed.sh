#!/bin/bash
# usage: verify_seed.sh <ID> <k> <check-ID> [<check-ID>...]
# Confirms a fault-seeding agent's change k for property ID in its worktree /tmp/mut/s-<ID> (whose _build the agent left built
# from the unmodified tree): demo passes without the patch; the patch applies, builds, the pinned suite passes and the demo
# fails with it. In parallel, runs the given checks of /verif against the change in a scratch worktree (tools/mut/vcheck.sh).
# Files the change under /verif/seeded/<ID>-<k>/ (patch.diff, demo, notes, meta.json).
ID=$1; K=$2; shift 2
WT=/tmp/mut/s-$ID; S=$WT/seeded
LOG=/tmp/mut/verify-$ID-$K.log; : > $LOG
say() { echo "$@" | tee -a $LOG; }
cd $WT || exit 2
git checkout -- src include 2>/dev/null
git apply --check $S/patch$K.diff || { say "PATCH DOES NOT APPLY"; exit 2; }
# checks of /verif against the change, in the background (own worktree, own build tree)
( VLINES=6 /verif/tools/mut/vcheck.sh seed-$ID-$K $S/patch$K.diff "$@" > /tmp/mut/vcheck-$ID-$K.log 2>&1 ) &
VC=$!
BT_JOBS=${BT_JOBS:-8} /tmp/mut/tools/bt.sh $WT build >> $LOG 2>&1      # no-op when the agent left a clean build
bash $S/run_demo$K.sh $WT/_build >> $LOG 2>&1; dwo=$?
say "demo_without_patch_rc=$dwo"
git apply $S/patch$K.diff
BT_JOBS=${BT_JOBS:-8} /tmp/mut/tools/bt.sh $WT all >> $LOG 2>&1; suite=$?
if [ $suite -ne 0 ]; then
  # the pure-shell tesh self-tests (no libsimgrid) flake under load even in the serial re-run: try the failed ones alone, up to 3 times
  failed=$(grep -E "^\s*[0-9]+ - " $WT/_build/Testing/Temporary/LastTestsFailed.log 2>/dev/null | sed 's/^[0-9]*://' ; cut -d: -f2 $WT/_build/Testing/Temporary/LastTestsFailed.log 2>/dev/null)
  ok=1
  for t in $(cut -d: -f2 $WT/_build/Testing/Temporary/LastTestsFailed.log 2>/dev/null | sort -u); do
    case $t in tesh-self-*) ;; *) ok=0; continue;; esac
    pass=0
    for i in 1 2 3; do (cd $WT/_build && ctest -R "^$t\$" > /dev/null 2>&1) && { pass=1; break; }; done
    say "retry alone $t pass=$pass"
    [ $pass -eq 1 ] || ok=0
  done
  [ $ok -eq 1 ] && { suite=0; say "suite: only load-flaky tesh-self tests failed in the parallel run; each passed when run alone"; }
fi
say "suite_with_patch_rc=$suite"
bash $S/run_demo$K.sh $WT/_build >> $LOG 2>&1; dw=$?
say "demo_with_patch_rc=$dw"
git checkout -- src include
wait $VC
cat /tmp/mut/vcheck-$ID-$K.log >> $LOG
caught=""
for c in "$@"; do
  if grep -q "^VIOLATION property=$c" /tmp/vw/seed-$ID-$K/_check_$c.log; then caught="$caught $c"; fi
done
say "caught_by=[$caught ]"
D=/verif/seeded/$ID-$K; mkdir -p $D
cp $S/patch$K.diff $D/patch.diff; cp $S/demo$K* $S/run_demo$K.sh $D/ 2>/dev/null; cp $S/notes$K.md $D/notes.md 2>/dev/null
for f in $S/*.hpp $S/*.h $S/*.xml $S/*.txt; do [ -f "$f" ] && cp $f $D/; done
for c in "$@"; do grep -E "^VIOLATION|^  key=|^\[C" /tmp/vw/seed-$ID-$K/_check_$c.log | head -12 > $D/check_$c.txt; done
python3 - <<PY
import json
json.dump({"property": "$ID", "change": $K, "patch": "patch.diff", "demo": "run_demo$K.sh <build-dir>",
  "confirmed": {"pinned_suite_with_patch_rc": $suite, "demo_with_patch_rc": $dw, "demo_without_patch_rc": $dwo},
  "checks_run": "$*".split(), "caught_by": "$caught".split(),
  "needs_to_manifest": "see notes.md", "ran": "tools/mut/verify_seed.sh $ID $K $*"}, open("$D/meta.json","w"), indent=1)
PY
/verif/tools/mut/vcheck.sh --rm seed-$ID-$K
/verif/tools/mut/apply_summaries.py
say "DONE $ID-$K suite=$suite demo_with=$dw demo_without=$dwo caught=[$caught ]"
