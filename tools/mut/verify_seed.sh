#!/bin/bash
# usage: verify_seed.sh <ID> <k> <check-ID> [<check-ID>...]
# Confirms a saboteur's change k for property ID in its worktree /tmp/mut/s-<ID> (patch applies, builds, pinned suite
# passes, demo fails with it and passes without it), then runs the given checks of /verif against it in a scratch worktree,
# and files it under /verif/seeded/<ID>-<k>/ (patch.diff, demo, notes, meta.json).
ID=$1; K=$2; shift 2
WT=/tmp/mut/s-$ID; S=$WT/seeded
LOG=/tmp/mut/verify-$ID-$K.log; : > $LOG
say() { echo "$@" | tee -a $LOG; }
cd $WT || exit 2
git checkout -- src include 2>/dev/null
git apply --check $S/patch$K.diff || { say "PATCH DOES NOT APPLY"; exit 2; }
git apply $S/patch$K.diff
BT_JOBS=${BT_JOBS:-8} /tmp/mut/tools/bt.sh $WT all >> $LOG 2>&1; suite=$?
say "suite_with_patch_rc=$suite"
bash $S/run_demo$K.sh $WT/_build >> $LOG 2>&1; dw=$?
say "demo_with_patch_rc=$dw"
git checkout -- src include
BT_JOBS=${BT_JOBS:-8} /tmp/mut/tools/bt.sh $WT build >> $LOG 2>&1
bash $S/run_demo$K.sh $WT/_build >> $LOG 2>&1; dwo=$?
say "demo_without_patch_rc=$dwo"
caught=""
VLINES=6 /verif/tools/mut/vcheck.sh seed-$ID-$K $S/patch$K.diff "$@" > /tmp/mut/vcheck-$ID-$K.log 2>&1
cat /tmp/mut/vcheck-$ID-$K.log >> $LOG
for c in "$@"; do
  if grep -q "^VIOLATION property=$c" /tmp/vw/seed-$ID-$K/_check_$c.log; then caught="$caught $c"; fi
done
say "caught_by=[$caught ]"
D=/verif/seeded/$ID-$K; mkdir -p $D
cp $S/patch$K.diff $D/patch.diff; cp $S/demo$K.* $S/run_demo$K.sh $D/ 2>/dev/null; cp $S/notes$K.md $D/notes.md 2>/dev/null
for c in "$@"; do grep -E "^VIOLATION|^  key=|^\[C" /tmp/vw/seed-$ID-$K/_check_$c.log | head -12 > $D/check_$c.txt; done
python3 - <<PY
import json
json.dump({"property": "$ID", "change": $K, "patch": "patch.diff", "demo": "run_demo$K.sh <build-dir>",
  "confirmed": {"pinned_suite_with_patch_rc": $suite, "demo_with_patch_rc": $dw, "demo_without_patch_rc": $dwo},
  "checks_run": "$*".split(), "caught_by": "$caught".split(),
  "needs_to_manifest": "see notes.md", "ran": "tools/mut/verify_seed.sh $ID $K $*"}, open("$D/meta.json","w"), indent=1)
PY
/verif/tools/mut/vcheck.sh --rm seed-$ID-$K
say "DONE $ID-$K suite=$suite demo_with=$dw demo_without=$dwo caught=[$caught ]"
