#!/bin/bash
# usage: vcheck.sh <name> <patch.diff|-> <ID> [<ID>...]      env: VTIER (quick), VFLAV unused
# Creates (or reuses) a scratch worktree /tmp/vw/<name> of /repo HEAD, applies the patch (unless "-"), and runs the
# given checks of /verif against it (its own build tree and output directory; /repo, /verif/.build and
# /verif/evidence are not touched). Remove it afterwards with: vcheck.sh --rm <name>
if [ "$1" = "--rm" ]; then git -C /repo worktree remove --force /tmp/vw/$2; exit 0; fi
NAME=$1; PATCH=$2; shift 2
WT=/tmp/vw/$NAME
mkdir -p /tmp/vw
if [ ! -d $WT ]; then
  git -C /repo worktree add --detach $WT HEAD >/dev/null 2>&1 || { echo "worktree failed"; exit 2; }
  if [ "$PATCH" != "-" ]; then git -C $WT apply $(readlink -f $PATCH) || { echo "patch does not apply"; exit 2; }; fi
fi
export VERIF_REPO=$WT VERIF_BUILD=$WT/_vb VERIF_OUT=$WT/_out
rc=0
for id in "$@"; do
  /verif/bin/check $id --tier ${VTIER:-quick} > $WT/_check_$id.log 2>&1; r=$?
  echo "== $id rc=$r"; grep -E "^VIOLATION|^KNOWN-FINDING|^\[C" $WT/_check_$id.log | cut -c1-300 | head -${VLINES:-12}
  [ $r -ne 0 ] && rc=$r
done
exit $rc
