// C39 reproducer 3: the list of ready activities of a pending test_any is computed when the call is issued, not when the
// transition is executed.
// Build: L=/verif/.build/hooks; g++ -std=c++17 -O1 -I/repo/include -I$L/include X.cpp -o X -L$L/lib -lsimgrid -Wl,-rpath,$L/lib
// Run:   $L/bin/simgrid-mc --cfg=model-check/reduction:<none|dpor|sdpor|odpor> ./X
// Observed on the unpatched tree: reduction:none -> 23 traces, test_any never finds the message; with c->test() instead, 2 of 6 traces find it (PROPERTY NOT VALID)
#include <simgrid/modelchecker.h>
#include <simgrid/s4u.hpp>
#include <simgrid/s4u/ActivitySet.hpp>
namespace sg4 = simgrid::s4u;
int main(int argc, char** argv)
{
  sg4::Engine e(&argc, argv);
  auto* z = e.get_netzone_root()->add_netzone_full("z");
  auto* h = z->add_host("h", 1e9);
  z->seal();
  auto* mb  = sg4::Mailbox::by_name("mb");
  auto sem  = sg4::Semaphore::create(0);
  h->add_actor("tester", [mb, sem]() { // pid 1
    long* buf = nullptr;
    auto c    = mb->get_async<long>(&buf);
    sem->release(); // the sender may go
    sg4::this_actor::yield();
    sg4::this_actor::yield();
    sg4::this_actor::yield();
    sg4::ActivitySet set;
    set.push(c);
    auto done = set.test_any();
    printf("test_any found the message: %s\n", done ? "yes" : "no");
    MC_assert(done == nullptr); // fails as soon as the message was posted before the test_any
    if (not done)
      c->wait();
  });
  h->add_actor("sender", [mb, sem]() { // pid 2
    sem->acquire();
    mb->put(new long(42), 8);
  });
  e.run();
  return 0;
}
