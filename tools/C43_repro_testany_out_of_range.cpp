// C43 reproducer: ActivitySet::test_any() whose "nothing is ready" alternative is explored while every activity is ready.
// Build: L=/verif/.build/hooks; g++ -std=c++17 -O1 -I/repo/include -I$L/include X.cpp -o X -L$L/lib -lsimgrid -Wl,-rpath,$L/lib
// Run:   $L/bin/simgrid-mc --cfg=model-check/reduction:<none|dpor|sdpor|odpor> ./X
// Observed on the unpatched tree: every reduction -> SIGABRT, 'Uncaught exception std::out_of_range: vector::_M_range_check'
#include <simgrid/modelchecker.h>
#include <simgrid/s4u.hpp>
#include <simgrid/s4u/ActivitySet.hpp>
namespace sg4 = simgrid::s4u;
int main(int argc, char** argv)
{
  sg4::Engine e(&argc, argv);
  auto* z = e.get_netzone_root()->add_netzone_full("z");
  auto* h = z->add_host("h", 1e9);
  z->seal();
  auto* mb = sg4::Mailbox::by_name("mb");
  h->add_actor("sender", [mb]() { mb->put(new long(42), 8); }); // pid 1
  h->add_actor("tester", [mb]() {                               // pid 2
    long* buf = nullptr;
    auto c    = mb->get_async<long>(&buf);
    sg4::ActivitySet set;
    set.push(c);
    auto done = set.test_any();
    if (not done)
      c->wait();
  });
  e.run();
  return 0;
}
