#!/usr/bin/env python3
"""Oracle self-test for C30: corrupt the harness output of sound directed types and see that ctx.violation is reached with a new key."""
import os, sys, tempfile, shutil, re
os.environ["VERIF_OUT"] = tempfile.mkdtemp(prefix="verif-C30-selftest-out-")
sys.path.insert(0, "/verif/lib")
from verif import core, build
from verif.gen import mpi
from verif.props import C30

def flip_byte(out):          # one transfer check of count 2 through Pack reports a wrong byte
    return re.sub(r"(?m)^x (\d+) 2 4 0 0$", r"x \1 2 4 1 17", out, count=1)
def outside(out):            # Recv of count 1 modified a byte outside the type map
    return re.sub(r"(?m)^x (\d+) 1 1 0 0$", r"x \1 1 1 2 3", out, count=1)
def extent_off(out):         # MPI_Type_get_extent answers 8 bytes more
    def f(m):
        p = m.group(0).split(); p[5] = str(int(p[5]) + 8); return " ".join(p)
    return re.sub(r"(?m)^m \d+ 0 .*$", f, out, count=1)
def size_off(out):
    def f(m):
        p = m.group(0).split(); p[3] = str(int(p[3]) - 1); return " ".join(p)
    return re.sub(r"(?m)^m \d+ 0 .*$", f, out, count=1)
def lb_off(out):
    def f(m):
        p = m.group(0).split(); p[4] = str(int(p[4]) + 4); return " ".join(p)
    return re.sub(r"(?m)^m \d+ 0 .*$", f, out, count=1)
def dies(out):               # the run stops in the middle of count=3 (as if it had crashed there)
    i = out.find("\np 0 0 3 2")
    return out[:i + 1] + "CRASH 11 0\n" if i >= 0 else out
tests = [("matrix-column", flip_byte, "C30:transfer:vector:old=basic:count=n:serialize"),
         ("c-struct", outside, "C30:transfer:struct:old=basic:count=1:only=send-recv"),
         ("upper-triangle", extent_off, "C30:meta:extent:indexed:old=basic"),
         ("blocks-of-ints", size_off, "C30:meta:size:vector:old=basic"),
         ("c-struct-resized", lb_off, "C30:meta:lb:struct:old=basic"),
         ("matrix-column", dies, "C30:transfer:vector:old=basic:count=n:crash:sig11"),
         ("matrix-column", None, None)]
exe = build.smpicc("mpi/dtype.c", "hooks")
tmp = tempfile.mkdtemp(prefix="verif-C30-selftest-")
bad = 0
for name, fn, want in tests:
    ctx = core.Ctx(C30.META, "quick", 1, replay_path="selftest")
    sys.stdout.flush()
    C30.run_directed(ctx, exe, tmp, name, corrupt=fn)
    keys = [k for k, _, _ in ctx.violations]
    ok = (keys == [want]) if want else (keys == [] and not ctx.known_hits)
    print("SELFTEST %-18s %-12s -> %s  %s" % (name, fn.__name__ if fn else "uncorrupted", keys, "ok" if ok else "UNEXPECTED (wanted %s)" % want))
    bad += not ok
mpi.cleanup(); shutil.rmtree(tmp); shutil.rmtree(os.environ["VERIF_OUT"], ignore_errors=True)
sys.exit(1 if bad else 0)
