// C39 reproducer 1: Comm::test() on a not-yet-matched receive vs. the isend that matches it.
// Build: L=/verif/.build/hooks; g++ -std=c++17 -O1 -I/repo/include -I$L/include X.cpp -o X -L$L/lib -lsimgrid -Wl,-rpath,$L/lib
// Run:   $L/bin/simgrid-mc --cfg=model-check/reduction:<none|dpor|sdpor|odpor> ./X
// Observed on the unpatched tree: reduction:none -> PROPERTY NOT VALID (2 traces); dpor/sdpor/odpor -> no error, 1 trace (the isend is never moved before the test)
#include <simgrid/modelchecker.h>
#include <simgrid/s4u.hpp>
namespace sg4 = simgrid::s4u;
int main(int argc, char** argv)
{
  sg4::Engine e(&argc, argv);
  auto* z = e.get_netzone_root()->add_netzone_full("z");
  auto* h = z->add_host("h", 1e9);
  z->seal();
  auto* mb = sg4::Mailbox::by_name("mb");
  h->add_actor("tester", [mb]() {   // pid 1
    long* buf = nullptr;
    auto c    = mb->get_async<long>(&buf);
    bool ok   = c->test();
    MC_assert(not ok); // fails in every execution where the sender posted its message before the test
    if (not ok)
      c->wait();
  });
  h->add_actor("sender", [mb]() { mb->put(new long(42), 8); }); // pid 2
  e.run();
  return 0;
}
